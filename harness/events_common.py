"""Shared by C03 / C04 / C10: scripted handlers for desper.EventDispatcher.

A case is plain JSON:
  classes : [{'bases': [index..], 'names': [n..], 'maps': [[event, method]..], 'defs': [n..]}]   class i = index
            ('base': index|None is accepted for old cases; 'defs' = method names the class (re)defines)
  hcls    : class index of handler 1..n
  holder  : per handler 'var' (a harness variable holds the only strong reference),
            'w2' (component of a separate World), 'own' / 'own_imm' / 'own_def' (component, alone in
            its entity, of the World under test; dropped by remove_component /
            delete_entity(e, immediate=True) / delete_entity(e) followed by process())
  eqs     : [[h, h0]..]  h is a distinct object that is == and hash-equal to h0 (K4 only)
  scripts : [[h, [[m, [action..]]..]]..]
  ops     : [action..]      the top level program
  dkind   : 'plain' (EventDispatcher) | 'world' (a World used through its dispatcher API)
  falsy   : per class 0 | 1 (instances define __bool__ -> False) | 2 (__len__ -> 0); the harness never
            uses the truth value or == of a handler, only identity
Actions: ['add',h] ['remove',h] ['is',h] ['dispatch',e,a] ['enable',0|1] ['clear'] ['raise'] ['drop',h]
         World components (holder 'ctl', dispatcher = World): ['create',h] ['removec',h] ['replace',h,h2]
         (skipped, and logged as skipped, when their precondition does not hold)
Event 90 is the name 'on_add' (a class mapping it makes its instances Controller-like).

Names are 'n<i>' for events and methods alike.  Every dispatch passes a
fresh token first, then the positional / keyword arguments of shape a.
"""
from harness.core import z, b, lst, opt

# argument shapes: code -> (args, kwargs) passed after the token
# argument shapes: code -> (how the token travels, args, kwargs).  'pos': the token is the
# first positional argument, followed by args; 'kw': the call has NO positional argument at all,
# the token is the keyword argument tok=...  Values include None / 0 / '' / () / tuples.
ARGS = [('pos', (), {}), ('pos', (7,), {}), ('pos', (7, 8), {}), ('pos', (), {'k': 1}),
        ('pos', (7,), {'k': 1, 'j': 2}), ('pos', (8, 7), {'j': 1}),
        ('kw', (), {}), ('kw', (), {'k': None}), ('kw', (), {'k': 0, 'j': ''}),
        ('kw', (), {'k': (1, 2), 'j': None, 'i': 0}),
        ('pos', (None,), {}), ('pos', (0, ''), {'k': ()}), ('pos', ((1, 2), None), {'k': ''})]
RELAY = 99           # code of the arguments (entity, world) of a relayed on_add


def arg_code(mode, args, kwargs):
    for i, (md, a, k) in enumerate(ARGS):
        if md == mode and repr(tuple(args)) == repr(a) and repr(sorted(kwargs.items())) == repr(sorted(k.items())):
            return i
    return -1


ON_ADD = 90


def ename(i):
    return 'on_add' if i == ON_ADD else 'n%d' % i


def enum(name):
    return ON_ADD if name == 'on_add' else int(name[1:])


class ScriptError(Exception):
    pass


def bases_of(c):
    if 'bases' in c:
        return list(c['bases'])
    return [] if c.get('base') is None else [c['base']]




# --------------------------------------------------------------- running
class Runner:
    def __init__(self, case):
        import desper
        import weakref
        self.desper = desper
        self.weakref = weakref
        self.case = case
        self.log = []
        self.tok = 0
        self.en = True                 # what the program assigned last (not read from the dispatcher)
        self.recv = []                 # receivers of the callbacks being executed
        self.rel_depth = 0             # enabling assignments in progress
        self.ctx = {}                  # what happened where (evidence only)
        self.gone = set()
        self.scripts = {}
        for h, ms in case['scripts']:
            for m, acts in ms:
                self.scripts[(h, m)] = acts
        self.cls_obs = []
        self.setup = True
        self.build_classes()
        self.build_handlers()
        self.setup = False

    # classes, built with type() and decorated with desper.event_handler
    def build_classes(self):
        case = self.case
        nnames = 1 + max([0] + [n for c in case['classes'] for n in c['names']]
                         + [x for c in case['classes'] for em in c['maps'] for x in em]
                         + [n for c in case['classes'] for n in c.get('defs', [])])
        runner = self

        def make_method(i, ci):
            def f(self, *args, **kwargs):
                runner.on_call(self, i, args, kwargs, ci)
            f.__name__ = 'n%d' % i
            return f
        frozen = bool(case.get('eqs'))
        self.classes = []
        self.mro_obs = []
        for ci, c in enumerate(case['classes']):
            bases = bases_of(c)
            own = set(c['names']) | {m for _, m in c['maps']} | set(c.get('defs', []))
            ns = {}
            if not bases:
                own = set(range(nnames))
                if frozen:
                    ns['__annotations__'] = {'v': int, 'hid': int}
            for i in own:
                ns['n%d' % i] = make_method(i, ci)
            falsy = (case.get('falsy') or [0] * len(case['classes']))[ci]
            if falsy == 1 and not frozen:
                ns['__bool__'] = lambda self: False           # a handler that is falsy
            elif falsy == 2 and not frozen:
                ns['__len__'] = lambda self: 0                 # ... or an empty container
            k = type('C%d' % ci, tuple(self.classes[b] for b in bases) or (object,), ns)
            if frozen:
                import dataclasses
                if not bases:
                    k.hid = dataclasses.field(default=0, compare=False)
                k = dataclasses.dataclass(frozen=True)(k)
            k2 = self.desper.event_handler(*['n%d' % n for n in c['names']],
                                           **{ename(e): 'n%d' % m for e, m in c['maps']})(k)
            self.decorator_returned_cls = getattr(self, 'decorator_returned_cls', True) and k2 is k
            self.classes.append(k2)
            self.mro_obs.append([self.classes.index(x) for x in k2.__mro__ if x in self.classes])
            self.cls_obs.append([self.read_events(x) for x in self.classes])

    @staticmethod
    def read_events(k):
        d = getattr(k, '__events__', None)
        if d is None:
            return None
        try:
            return sorted([enum(e), int(m[1:])] for e, m in d.items())
        except Exception:
            return [[-1, -1]]

    def build_handlers(self):
        desper = self.desper
        case = self.case
        self.d = desper.World() if case.get('dkind') == 'world' else desper.EventDispatcher()
        self.w2 = None
        self.objs = {}
        self.ents = {}
        self.wrefs = {}
        self.styles = {}
        self.ctl = set()          # Controller-like components, not yet in the World
        self.rows = {}            # ctl handler -> (entity, class) while a World row holds it
        self.spent = set()
        self.relay_tok = {}
        self.delivered = set()
        self.checked = set()
        eqs = dict((h, h0) for h, h0 in case.get('eqs', []))
        for i, ci in enumerate(case['hcls']):
            h = i + 1
            k = self.classes[ci]
            if case.get('eqs'):
                o = k(v=eqs.get(h, h), hid=h)
            else:
                o = k()
                o.hid = h
            self.wrefs[h] = self.weakref.ref(o)
            holder = case.get('holder', ['var'] * len(case['hcls']))[i]
            if holder in ('var', 'ctl'):
                self.objs[h] = o
                if holder == 'ctl':
                    self.ctl.add(h)
            elif holder == 'w2':
                if self.w2 is None:
                    self.w2 = desper.World()
                self.ents[h] = (self.w2, self.w2.create_entity(o), k)
            else:
                self.ents[h] = (self.d, self.d.create_entity(o), k)
                self.styles[h] = holder
                self.d.remove_handler(o)      # start unregistered, like everybody else
            del o

    def obj(self, h):
        if h in self.objs:
            return self.objs[h]
        if h in self.rows:
            return self.d.get_component(*self.rows[h])
        w, e, k = self.ents[h]
        return w.get_component(e, k)

    # a callback was entered
    def on_call(self, receiver, m, args, kwargs, defcls=None):
        if self.setup:
            return               # on_add of a component placed in a World row before the program starts
        h = -1 if receiver is None else getattr(receiver, 'hid', -2)
        if receiver is not None and defcls is not None:
            # Python's own method resolution: the function that ran must be the one the
            # receiver's class resolves the name to (an overriding subclass wins)
            name = 'n%d' % m
            want = next((k for k in type(receiver).__mro__ if name in k.__dict__), None)
            if want is not self.classes[defcls]:
                self.log.append(['error', 'wrong-function', name])
        if len(args) == 2 and args[1] is self.d and not kwargs and m == ON_ADD:
            tok, code = self.relay_tok.get(h, -1), RELAY      # a relayed on_add(entity, world)
            self.delivered.add(h)
        elif args and type(args[0]) is int:
            tok, code = args[0], arg_code('pos', args[1:], kwargs)
        elif not args and type(kwargs.get('tok')) is int:
            tok = kwargs['tok']
            code = arg_code('kw', (), {k: v for k, v in kwargs.items() if k != 'tok'})
        else:
            tok, code = -1, -1
        self.log.append(['call', h, m, tok, code])
        if len(self.log) > 3000:
            raise RuntimeError('log overflow')
        self.recv.append(h)
        try:
            self.run_script(self.scripts.get((h, m), []))
        finally:
            self.recv.pop()
        self.log.append(['ret'])

    def run_script(self, acts):
        for a in acts:
            self.perform(a)

    def perform(self, a):
        d = self.d
        kind = a[0]
        if kind == 'is':
            h = a[1]
            r = False if h in self.gone else bool(d.is_handler(self.obj(h)))
            self.log.append(['is', h, r])
            return
        if kind in ('create', 'removec', 'replace'):
            if not self.lifecycle_ok(a):
                self.log.append(['skip'])
                self.ctx['skipped_' + kind] = self.ctx.get('skipped_' + kind, 0) + 1
                return
        self.log.append(['act', a])
        if self.recv:
            where = 'release' if self.rel_depth else 'dispatch'
            key = '%s_in_%s' % (kind if kind != 'enable' else ('enable' if a[1] else 'disable'), where)
            self.ctx[key] = self.ctx.get(key, 0) + 1
        if kind == 'add':
            if a[1] not in self.gone:
                d.add_handler(self.obj(a[1]))
        elif kind == 'remove':
            if a[1] not in self.gone:
                d.remove_handler(self.obj(a[1]))
        elif kind == 'dispatch':
            tok = self.tok
            self.tok += 1
            was = self.en
            mode, args, kwargs = ARGS[a[2]]
            if mode == 'pos':
                d.dispatch('n%d' % a[1], tok, *args, **kwargs)
            else:
                d.dispatch('n%d' % a[1], tok=tok, **kwargs)
            if was:
                self.log.append(['end', tok])
        elif kind == 'enable':
            if a[1]:
                tok = self.tok
                self.tok += 1
                self.en = True
                self.rel_depth += 1
                try:
                    d.dispatch_enabled = True
                finally:
                    self.rel_depth -= 1
                self.log.append(['end', tok])
            else:
                self.en = False
                d.dispatch_enabled = False
        elif kind == 'create':
            h = a[1]
            self.relay_tok[h] = self.tok
            self.tok += 1
            self.spent.add(h)
            if h % 2:
                e = d.create_entity(self.objs.pop(h))
            else:
                e = d.create_entity()
                d.add_component(e, self.objs.pop(h))
            self.rows[h] = (e, self.classes[self.case['hcls'][h - 1]])
        elif kind == 'removec':
            h = a[1]
            e, k = self.rows.pop(h)
            if h % 3 == 0:
                d.remove_component(e, k)
            elif h % 3 == 1:
                d.delete_entity(e, immediate=True)
            else:
                d.delete_entity(e)
                d.process(0)
            del e, k
            self.left_row(h)
        elif kind == 'replace':
            h, h2 = a[1], a[2]
            self.relay_tok[h2] = self.tok
            self.tok += 1
            self.spent.add(h2)
            e, k = self.rows.pop(h)
            d.add_component(e, self.objs.pop(h2))
            self.rows[h2] = (e, k)
            self.left_row(h)
        elif kind == 'clear':
            self.en = True
            d.clear()
        elif kind == 'raise':
            raise ScriptError()
        elif kind == 'drop':
            h = a[1]
            if h in self.gone or h in self.recv:
                return
            self.gone.add(h)
            if h in self.objs:
                del self.objs[h]
            else:
                w, e, k = self.ents.pop(h)
                style = self.styles.get(h, 'own')
                if style == 'own_imm':
                    w.delete_entity(e, immediate=True)
                elif style == 'own_def':
                    w.delete_entity(e)          # the World row stays the last strong holder ...
                    w.process(0)                # ... until the next frame clears dead entities
                else:
                    w.remove_component(e, k)
                del w, e, k
            if self.wrefs[h]() is not None:
                self.log.append(['survived', h])    # somebody holds the handler strongly
        else:
            raise ValueError(kind)

    def lifecycle_ok(self, a):
        if self.case.get('dkind') != 'world':
            return False
        kind, h = a[0], a[1]
        if kind == 'create':
            return h in self.ctl and h not in self.spent and not self.en
        # a component leaves its row only when that has a simple outcome: it is not executing,
        # and if its postponed on_add still holds it, no callback (no open snapshot) is around
        leave = (h in self.rows and h not in self.recv and not (self.relay_pending(h) and self.recv))
        if kind == 'removec':
            return leave
        h2 = a[2]
        return (leave and h2 in self.ctl and h2 not in self.spent and not self.en and h2 != h
                and self.case['hcls'][h - 1] == self.case['hcls'][h2 - 1])

    def relay_pending(self, h):
        return h in self.relay_tok and h not in self.delivered and self.maps_on_add(h)

    def maps_on_add(self, h):
        return 'on_add' in getattr(self.classes[self.case['hcls'][h - 1]], '__events__', {})

    def left_row(self, h):
        if not self.relay_pending(h):
            self.gone.add(h)
            self.checked.add(h)
            if self.wrefs[h]() is not None:
                self.log.append(['survived', h])

    def check_released(self):
        """A component that left its World row, and whose postponed on_add (if any) was
        delivered, must be dead: neither the dispatcher nor the World keeps it alive."""
        for h in self.spent:
            if h in self.rows or h in self.checked:
                continue
            if h in self.delivered or not self.maps_on_add(h):
                self.checked.add(h)
                if self.wrefs[h]() is not None:
                    self.log.append(['survived', h])

    def top(self):
        for a in self.case['ops']:
            try:
                self.perform(a)
            except ScriptError:
                self.log.append(['exc'])
            except Exception as ex:          # an error of the implementation is an observation
                self.log.append(['error', type(ex).__name__, str(ex)[:200]])
            del self.recv[:]
            self.check_released()


def run(case):
    r = Runner(case)
    if not r.decorator_returned_cls:
        r.log.append(['error', 'decorator-returned-another-class'])
    r.top()
    return {'classes': r.cls_obs, 'mro': r.mro_obs, 'log': r.log, 'ctx': r.ctx}


# --------------------------------------------------------------- encoding
def enc_action(a):
    k = a[0]
    if k == 'add':
        return '(AAdd %s)' % z(a[1])
    if k == 'remove':
        return '(ARemove %s)' % z(a[1])
    if k == 'is':
        return '(AIs %s)' % z(a[1])
    if k == 'dispatch':
        return '(ADispatch %s %s)' % (z(a[1]), z(a[2]))
    if k == 'enable':
        return '(ASetEnabled %s)' % b(a[1])
    if k == 'clear':
        return 'AClear'
    if k == 'raise':
        return 'ARaise'
    if k == 'drop':
        return '(ADrop %s)' % z(a[1])
    if k == 'create':
        return '(ACreate %s)' % z(a[1])
    if k == 'removec':
        return '(ARemoveC %s)' % z(a[1])
    if k == 'replace':
        return '(AReplace %s %s)' % (z(a[1]), z(a[2]))
    raise ValueError(k)


BAD = '(EEnd (-1))'          # an entry no machine accepts


def enc_entry(e):
    k = e[0]
    if k == 'act':
        return '(EAct %s)' % enc_action(e[1])
    if k == 'is':
        return '(EIs %s %s)' % (z(e[1]), b(e[2]))
    if k == 'call':
        return '(ECall %s %s %s %s)' % (z(e[1]), z(e[2]), z(e[3]), z(e[4]))
    if k == 'ret':
        return 'ERet'
    if k == 'end':
        return '(EEnd %s)' % z(e[1])
    if k == 'exc':
        return 'EExc'
    if k == 'skip':
        return 'ESkip'
    return BAD               # 'error', 'survived'


def enc_mapping(m):
    return lst(['(%s, %s)' % (z(e), z(x)) for e, x in m])


def enc_cdef(i, c):
    return ('{| cd_cls := %s; cd_bases := %s; cd_names := %s; cd_maps := %s |}' % (
        z(i), lst([z(x) for x in bases_of(c)]),
        lst([z(n) for n in c['names']]), enc_mapping(c['maps'])))


def encode(case, trace):
    if 'log' not in trace:             # hang / crash of the runner: a log nobody accepts
        classes, log = [], [BAD]
    else:
        classes = []
        for i, (c, ob) in enumerate(zip(case['classes'], trace['classes'])):
            tb = lst(['(%s, %s)' % (z(j), opt(None if m is None else enc_mapping(m)))
                      for j, m in enumerate(ob)])
            classes.append('(%s, {| co_mro := %s; co_tab := %s |})' % (
                enc_cdef(i, c), lst([z(x) for x in trace['mro'][i]]), tb))
        log = [enc_entry(e) for e in trace['log']]
    scripts = lst(['(%s, %s)' % (z(h), lst(['(%s, %s)' % (z(m), lst([enc_action(a) for a in acts]))
                                            for m, acts in ms]))
                   for h, ms in case['scripts']])
    return ('{| c_classes := %s; c_hcls := %s; c_eqs := %s; c_scripts := %s; c_ops := %s; '
            'c_log := %s |}' % (
                lst(classes),
                lst(['(%s, %s)' % (z(i + 1), z(ci)) for i, ci in enumerate(case['hcls'])]),
                lst(['(%s, %s)' % (z(h), z(h0)) for h, h0 in case.get('eqs', [])]),
                scripts, lst([enc_action(a) for a in case['ops']]), lst(log)))


# ------------------------------------------------------------- generating
def linearise(classes):
    """MRO of every class as Python computes it (dummy classes), or None when
    Python rejects the hierarchy."""
    ks = []
    try:
        for c in classes:
            ks.append(type('D', tuple(ks[b] for b in bases_of(c)) or (object,), {}))
    except TypeError:
        return None
    return [[ks.index(x) for x in k.__mro__ if x in ks] for k in ks]


def final_mappings(classes):
    """Effective event -> method mapping of every class (None: no __events__);
    used to place scripts and to bound the size of a case, not to judge."""
    mros = linearise(classes)
    own = []
    for c, mro in zip(classes, mros):
        inh = next((own[b] for b in mro[1:] if own[b] is not None), None)
        if not c['names'] and not c['maps']:
            own.append(None)
            continue
        m = dict(inh or {})
        for n in c['names']:
            m[n] = n
        for e, x in c['maps']:
            m[e] = x
        own.append(m)
    return [next((own[b] for b in mro if own[b] is not None), None) for mro in mros]


def gen_classes(rng, nev):
    """1-5 classes: roots, chains, diamonds and other multiple inheritance,
    decorated and undecorated classes mixed; every mapping sends event e to a
    method m >= e (termination of re-entrant scripts, see gen_case)."""
    while True:
        ncls = rng.choice([1, 2, 2, 3, 3, 4, 4, 5])
        classes = []
        for ci in range(ncls):
            r = rng.random()
            if ci == 0 or r < 0.2:
                bases = []
            elif r < 0.6 or ci == 1:
                bases = [rng.randrange(ci)]
            else:
                bases = rng.sample(range(ci), min(ci, rng.choice([2, 2, 3])))
            names, maps = [], []
            for e in range(nev):
                r = rng.random()
                if r < (0.5 if not bases else 0.3):
                    names.append(e)
                elif r < (0.8 if not bases else 0.55):
                    maps.append([e, rng.randint(e, nev)])
            if rng.random() < (0.15 if not bases else 0.25):
                names, maps = [], []          # event_handler(): cls is returned unchanged
            rng.shuffle(names)
            defs = [n for n in range(nev + 1) if rng.random() < 0.3] if bases else []
            classes.append(dict(bases=bases, names=names, maps=maps, defs=defs))
        if ncls >= 4 and rng.random() < 0.6:
            # a diamond: the first base of class 3 owns no mapping, a later class of its MRO does
            first, second = (1, 2) if rng.random() < 0.7 else (2, 1)
            classes[0]['bases'] = []
            classes[1]['bases'] = [0]
            classes[2]['bases'] = [0]
            classes[3]['bases'] = [first, second]
            classes[first]['names'], classes[first]['maps'] = [], []
            if not classes[second]['names'] and not classes[second]['maps']:
                classes[second]['maps'] = [[0, rng.randint(1, nev)]]
        if linearise(classes) is None:
            continue
        if any(m is not None for m in final_mappings(classes)):
            return classes


def gen_script(rng, m, nh, nev, kinds, weights):
    acts = []
    for _ in range(rng.randint(1, 3)):
        k = rng.choices(kinds, weights)[0]
        if k in ('add', 'remove', 'is', 'drop'):
            acts.append([k, rng.randint(1, nh)])
        elif k == 'dispatch':
            if m + 1 <= nev - 1:
                acts.append(['dispatch', rng.randint(m + 1, nev - 1), rng.randrange(len(ARGS))])
        elif k == 'enable':
            acts.append(['enable', rng.randint(0, 1)])
        elif k == 'raise':
            acts.append(['raise'])
            break
        else:
            acts.append([k])
    return acts


def cost_bound(case):
    """Static upper bound on the number of callbacks one dispatch can cause
    (all handlers registered); used to discard explosive cases."""
    maps = final_mappings(case['classes'])
    scripts = {(h, m): acts for h, ms in case['scripts'] for m, acts in ms}
    nev = 1 + max([0] + [e for mp in maps if mp for e in mp])
    cost = {}
    for e in range(nev + 2, -1, -1):
        tot = 0
        for i, ci in enumerate(case['hcls']):
            m = maps[ci].get(e)
            if m is None:
                continue
            tot += 1
            for a in scripts.get((i + 1, m), []):
                if a[0] == 'dispatch':
                    tot += cost.get(a[1], 0)
                if a[0] == 'enable' and a[1]:
                    tot += 3
        cost[e] = tot
    return max(cost.values()) if cost else 0


def gen_case(rng, mode):
    """mode 3: C03 (always enabled, nobody freed); 4: C04 (+ enable/disable);
    10: C10 (+ drop, holders, World as the dispatcher)."""
    nev = rng.randint(1, 3)
    classes = gen_classes(rng, nev)
    nh = rng.randint(2, 5)
    usable = [i for i, m in enumerate(final_mappings(classes)) if m is not None]
    hcls = [rng.choice(usable) for _ in range(nh)]
    kinds = ['add', 'remove', 'is', 'dispatch', 'clear', 'raise']
    w_top = [3, 3, 1.5, 5, 0.4, 0]
    w_cb = [2, 3, 0.5, 4, 0.3, 1.5]
    dkind = 'world' if rng.random() < {3: 0.15, 4: 0.3, 10: 0.5}[mode] else 'plain'
    holder = ['var'] * nh
    if mode >= 4:
        kinds = kinds + ['enable']
        w_top = w_top + [0]            # top level toggles come from the block structure below
        w_cb = w_cb + [4 if mode == 4 else 1.5]
    if mode >= 10:
        kinds = kinds + ['drop']
        w_top = w_top + [2]
        w_cb = w_cb + [5]
        for i in range(nh):
            r = rng.random()
            if dkind == 'world' and r < 0.7:
                holder[i] = rng.choice(['own', 'own_imm', 'own_def'])
            elif r >= 0.8:
                holder[i] = 'w2'
        if any(x.startswith('own') for x in holder):
            w_top[kinds.index('clear')] = 0
            w_cb[kinds.index('clear')] = 0
    ctl = []
    if mode >= 10 and dkind == 'world' and rng.random() < 0.7:
        # Controller-like components of one class, which (mostly) handles on_add
        cc = rng.choice(usable)
        if rng.random() < 0.85 and not any(e == ON_ADD for e, _ in classes[cc]['maps']):
            classes[cc]['maps'].append([ON_ADD, ON_ADD])
        for _ in range(rng.randint(1, 4)):
            hcls.append(cc)
            holder.append('ctl')
            ctl.append(len(hcls))
        w_top[kinds.index('clear')] = 0
        w_cb[kinds.index('clear')] = 0
    maps = final_mappings(classes)
    scripts = []
    p_script = {3: 0.35, 4: 0.5, 10: 0.5}[mode]
    fresh = list(ctl)
    placed = []

    def life_ops():
        # a component enters the World while disabled; often it is removed / replaced / deleted
        # again before dispatching is re-enabled (its postponed on_add is then its only holder)
        out = []
        r = rng.random()
        if fresh and (r < 0.6 or not placed):
            h = fresh.pop(rng.randrange(len(fresh)))
            out.append(['create', h])
            placed.append(h)
            r2 = rng.random()
            if r2 < 0.3:
                out.append(['removec', h])
                placed.remove(h)
            elif r2 < 0.55 and fresh:
                h2 = fresh.pop(rng.randrange(len(fresh)))
                out.append(['replace', h, h2])
                placed.remove(h)
                placed.append(h2)
        elif placed and r < 0.85:
            out.append(['removec', placed.pop(rng.randrange(len(placed)))])
        else:
            out.append(rng.choice([['create', rng.choice(ctl)], ['removec', rng.choice(ctl)]]))
        return out
    for h in range(1, len(hcls) + 1):
        ms = []
        for m in sorted(set(maps[hcls[h - 1]].values())):
            if rng.random() < p_script:
                acts = gen_script(rng, m, nh, nev, kinds, w_cb)
                if ctl and rng.random() < 0.25:
                    acts.insert(rng.randint(0, len(acts)), ['removec', rng.choice(ctl)])
                ms.append([m, acts])
        if ms:
            scripts.append([h, ms])

    def top_op():
        k = rng.choices(kinds, w_top)[0]
        if k in ('add', 'remove', 'is', 'drop'):
            return [k, rng.randint(1, nh)]
        if k == 'dispatch':
            return ['dispatch', rng.randrange(nev + (1 if rng.random() < 0.1 else 0)),
                    rng.randrange(len(ARGS))]
        return [k]
    ops = []
    for h in range(1, nh + 1):
        if rng.random() < 0.85:
            ops.append(['add', h])
    if mode == 3:
        for _ in range(rng.randint(0, 16)):
            ops.append(top_op())
    else:
        for _ in range(rng.randint(1, 3)):
            for _ in range(rng.randint(0, 3)):
                ops.append(top_op())
            if rng.random() < 0.85:
                ops.append(['enable', 0])
                for _ in range(rng.randint(1, 5)):       # the queue
                    if ctl and rng.random() < 0.45:
                        ops.extend(life_ops())
                    elif rng.random() < 0.8:
                        ops.append(['dispatch', rng.randrange(nev), rng.randrange(len(ARGS))])
                    else:
                        ops.append(top_op())
            for _ in range(rng.randint(1, 3)):            # release; again after a raise / nested disable
                ops.append(['enable', 1])
                if rng.random() < 0.3:
                    ops.append(top_op())
                if ctl and rng.random() < 0.3:
                    ops.append(['removec', rng.choice(ctl)])
    # a third of the cases have handler classes whose instances are falsy (identity and default
    # equality untouched): nothing may depend on the truth value of a handler
    falsy = [0] * len(classes)
    if rng.random() < 0.35:
        falsy = [rng.choice([0, 1, 2]) if rng.random() < 0.8 else 0 for _ in classes]
    return dict(classes=classes, hcls=hcls, holder=holder, eqs=[], scripts=scripts, ops=ops,
                dkind=dkind, falsy=falsy)


def gen_cases(rng, mode, n):
    out = []
    while len(out) < n:
        c = gen_case(rng, mode)
        if cost_bound(c) <= 40:
            out.append(c)
    return out


def shrink(case):
    """Smaller cases: drop a top level op, a whole script, one script action."""
    ops = case['ops']
    for i in range(len(ops)):
        c = dict(case)
        c['ops'] = ops[:i] + ops[i + 1:]
        yield c
    sc = case['scripts']
    for i, (h, ms) in enumerate(sc):
        for j, (m, acts) in enumerate(ms):
            c = dict(case)
            ms2 = ms[:j] + ms[j + 1:]
            c['scripts'] = sc[:i] + ([[h, ms2]] if ms2 else []) + sc[i + 1:]
            yield c
            for k in range(len(acts)):
                c = dict(case)
                ms3 = ms[:j] + [[m, acts[:k] + acts[k + 1:]]] + ms[j + 1:]
                c['scripts'] = sc[:i] + [[h, ms3]] + sc[i + 1:]
                yield c


def mutate(case, rng):
    """Neighbourhood of a case: re-draw the scripts / extend the program."""
    for _ in range(200):
        c = dict(case)
        nh = len(case['hcls'])
        ops = list(case['ops'])
        for _ in range(rng.randint(1, 4)):
            ops.insert(rng.randint(0, len(ops)),
                       rng.choice([['enable', 0], ['enable', 1], ['dispatch', 0, 0],
                                   ['add', rng.randint(1, nh)], ['remove', rng.randint(1, nh)]]))
        c['ops'] = ops
        yield c


def stats(cases, traces):
    acts, entries, ctx, calls, hangs = {}, {}, {}, 0, 0
    for c, t in zip(cases, traces):
        if 'log' not in t:
            hangs += 1
            continue
        for e in t['log']:
            entries[e[0]] = entries.get(e[0], 0) + 1
            if e[0] == 'act':
                acts[e[1][0]] = acts.get(e[1][0], 0) + 1
        for k, v in t.get('ctx', {}).items():
            ctx[k] = ctx.get(k, 0) + v
    return dict(executed_actions=acts, log_entries=entries, actions_inside_callbacks=ctx,
                hangs=hangs, dispatcher_kinds={k: sum(1 for c in cases if c.get('dkind') == k)
                                               for k in ('plain', 'world')},
                holders={k: sum(c.get('holder', []).count(k) for c in cases)
                         for k in ('var', 'w2', 'own', 'own_imm', 'own_def')},
                class_hierarchies={'%d classes, up to %d bases' % k: v for k, v in sorted(
                    _count((len(c['classes']), max(len(bases_of(x)) for x in c['classes']))
                           for c in cases).items())},
                lifecycle={k: v for k, v in ctx.items() if k.startswith('skipped_')} | {
                    'relayed_on_add_delivered': sum(1 for t in traces for e in t.get('log', [])
                                                    if e[0] == 'call' and e[4] == RELAY)} | {
                    k: acts.get(k, 0) for k in ('create', 'removec', 'replace')},
                cases_with_falsy_handlers=sum(1 for c in cases if any(c.get('falsy') or [])),
                undecorated_classes=sum(1 for c in cases for x in c['classes']
                                        if not x['names'] and not x['maps']))


def _count(it):
    d = {}
    for k in it:
        d[k] = d.get(k, 0) + 1
    return d
