"""Shared pieces of the resource-tree checks (C11, C16, C17): harness doubles,
object numbering, structural dumps of real ResourceMaps and their encoding
as Coq literals of Tree/C11Model.v."""
from harness.core import z, lst, opt

LETTERS = ['a', 'b', 'c', 'd', '']


class Names:
    """Bijection path component (str) <-> number.  Codes 0..4 are fixed
    (a b c d and the empty string); other strings get the next free code."""

    def __init__(self, fixed=None):
        self.s2n = {}
        self.n2s = {}
        for i, s in enumerate(LETTERS if fixed is None else fixed):
            self.s2n[s] = i
            self.n2s[i] = s

    def code(self, s):
        if s is None:
            return None
        if not isinstance(s, str):
            s = 'obj:%r' % (s,)
        if s not in self.s2n:
            n = max(self.n2s) + 1 if self.n2s else 0
            n = max(n, 50)
            self.s2n[s] = n
            self.n2s[n] = s
        return self.s2n[s]

    def name(self, n):
        return self.n2s[n]


class Token:
    """The resource a handle double loads."""
    def __init__(self, owner):
        self.owner = owner


def make_handle_class():
    import desper

    class Hd(desper.Handle):
        def __init__(self, hid, *args, **kwargs):
            self.hid = hid
            self.args = args
            self.kwargs = kwargs

        def load(self):
            return Token(self)
    return Hd


class Registry:
    """Serial numbers for objects: maps created by the harness get the ids
    the case names (>= 0), maps discovered later get -1, -2, ... in order of
    first appearance; handles alike with ids >= 0 (foreign ones >= 1000)."""

    def __init__(self):
        self.mids = {}
        self.hids = {}
        self.keep = []
        self.nimp = 0
        self.nforeign = 0
        self.mobjs = {}
        self.hobjs = {}

    def add_map(self, obj, i):
        self.mids[id(obj)] = i
        self.mobjs[i] = obj
        self.keep.append(obj)

    def add_handle(self, obj, i):
        self.hids[id(obj)] = i
        self.hobjs[i] = obj
        self.keep.append(obj)

    def mid(self, obj):
        if id(obj) not in self.mids:
            self.nimp += 1
            self.add_map(obj, -self.nimp)
        return self.mids[id(obj)]

    def hid(self, obj):
        if id(obj) not in self.hids:
            self.nforeign += 1
            self.add_handle(obj, 999 + self.nforeign)
        return self.hids[id(obj)]

    def known_map(self, obj):
        return id(obj) in self.mids


def is_map(x):
    import desper
    return isinstance(x, desper.ResourceMap)


def is_handle(x):
    import desper
    return isinstance(x, desper.Handle)


def discover(reg, path_from=None, names=None):
    """Number unseen maps: first along the path of a composed key (the order
    in which __setitem__ creates them), then everything reachable."""
    if path_from is not None:
        cur = path_from
        for n in names:
            cur = cur.maps.get(n) if is_map(cur) else None
            if cur is None or not is_map(cur):
                break
            reg.mid(cur)
    changed = True
    while changed:
        changed = False
        for i in sorted(reg.mobjs, key=lambda x: (x < 0, abs(x))):
            m = reg.mobjs[i]
            cands = list(m.maps.values())
            if m.parent is not None:
                cands.append(m.parent)
            for layer in m.handles.maps:
                for h in layer.values():
                    if is_handle(h) and id(h) not in reg.hids:
                        reg.hid(h)
                        changed = True
                    if is_handle(h) and h.parent is not None:
                        cands.append(h.parent)
            for c in cands:
                if is_map(c) and not reg.known_map(c):
                    reg.mid(c)
                    changed = True
        for i in list(reg.hobjs):
            p = reg.hobjs[i].parent
            if p is not None and is_map(p) and not reg.known_map(p):
                reg.mid(p)
                changed = True


def ref_of(reg, x):
    """parent attribute -> id or None; a foreign object -> -9999"""
    if x is None:
        return None
    if is_map(x):
        return reg.mid(x)
    return -9999


def dump(reg, names):
    """[[mid, parent, key, [[name, mid]...], [[[name, hid]...]...]]...],
       [[hid, parent, key]...] for every known object."""
    ms = []
    for i in sorted(reg.mobjs, key=lambda x: (x < 0, abs(x))):
        m = reg.mobjs[i]
        subs = [[names.code(k), reg.mid(v) if is_map(v) else -9999]
                for k, v in m.maps.items()]
        layers = [[[names.code(k), reg.hid(v) if is_handle(v) else -9999]
                   for k, v in layer.items()] for layer in m.handles.maps]
        ms.append([i, ref_of(reg, m.parent), names.code(m.key), subs, layers])
    hs = []
    for i in sorted(reg.hobjs):
        h = reg.hobjs[i]
        hs.append([i, ref_of(reg, h.parent), names.code(h.key)])
    return ms, hs


# ------------------------------------------------------------------ encoding
def oz(x):
    return opt(None if x is None else z(x))


def enc_dict(items):
    return lst(['(%s,%s)' % (z(k), z(v)) for k, v in items])


def enc_mrec(r):
    return '(%s, MR %s %s %s %s)' % (z(r[0]), oz(r[1]), oz(r[2]), enc_dict(r[3]),
                                     lst([enc_dict(l) for l in r[4]]))


def enc_hrec(r):
    return '(%s, HR %s %s)' % (z(r[0]), oz(r[1]), oz(r[2]))


def enc_qres(r):
    if isinstance(r, list):
        return '(%s %s)' % ({'M': 'RMapR', 'V': 'RValR', 'H': 'RHandleR'}[r[0]], z(r[1]))
    return {'K': 'RKeyError', 'D': 'RDefault', 'N': 'RNone', 'X': 'RNotMap',
            'B': 'RBad'}[r]


def enc_names(ns):
    return lst([z(n) for n in ns])


def classify(reg, r, default=None):
    """result of a query -> JSON qres"""
    if default is not None and r is default:
        return 'D'
    if r is None:
        return 'N'
    if is_map(r):
        return ['M', reg.mid(r)]
    if isinstance(r, Token):
        return ['V', reg.hid(r.owner)]
    if is_handle(r):
        return ['H', reg.hid(r)]
    return 'B'
