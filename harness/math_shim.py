"""C18, second round: a scripted double of the `math` module with exact
angles, and generators / textbook oracle / float tests for the methods that
need it (rotations, perspective, look_at, the Vec2 angle helpers) and for
row, column, scale, the Mat3 transforms and __round__.

Angle tokens.  An angle is represented by t = tan(angle / 2), a rational, so
that cos = (1 - t^2)/(1 + t^2), sin = 2t/(1 + t^2), atan2 and the sum of two
angles are exact rational operations.  `Deg(t)` is the same angle "given in
degrees": radians(Deg(t)) = Ang(t), and Deg(t) * pi / 360 is the half angle
whose tangent is t.  The same conventions are implemented in Coq
(coq/theories/Math/QInst.v); both sides are doubles of `math`, the code under
test is the real desper.math with its `_math` global replaced during a call.
"""
import itertools
import math
from fractions import Fraction


class Ang:
    def __init__(self, t):
        self.t = Fraction(t)

    def __add__(self, o):
        if not isinstance(o, Ang):
            return NotImplemented
        return Ang((self.t + o.t) / (1 - self.t * o.t))     # ZeroDivisionError at pi

    def __sub__(self, o):
        if not isinstance(o, Ang):
            return NotImplemented
        return Ang((self.t - o.t) / (1 + self.t * o.t))

    def __neg__(self):
        return Ang(-self.t)

    def __repr__(self):
        return 'Ang(%s)' % self.t


class Deg:
    def __init__(self, t):
        self.t = Fraction(t)

    def __mul__(self, o):
        if o is PI:
            return DegPi(self.t)
        return NotImplemented


class _Pi:
    def __rmul__(self, o):
        if isinstance(o, Deg):
            return DegPi(o.t)
        return NotImplemented


PI = _Pi()


class DegPi:
    def __init__(self, t):
        self.t = t

    def __truediv__(self, o):
        if o == 360:
            return Half(self.t)
        return NotImplemented


class Half:
    def __init__(self, t):
        self.t = t


def exact_root(s):
    s = Fraction(s)
    if s < 0:
        raise ValueError('sqrt of a negative number')
    a, b = math.isqrt(s.numerator), math.isqrt(s.denominator)
    if a * a != s.numerator or b * b != s.denominator:
        raise ValueError('inexact square root (outside the exact domain)')
    return Fraction(a, b)


class Shim:
    """what desper.math sees as `_math` during an exact run"""
    pi = PI

    @staticmethod
    def sqrt(x):
        return exact_root(x)

    @staticmethod
    def hypot(*xs):
        return exact_root(sum(Fraction(x) ** 2 for x in xs))

    @staticmethod
    def cos(a):
        if not isinstance(a, Ang):
            raise TypeError('cos of a non-angle')
        return (1 - a.t * a.t) / (1 + a.t * a.t)

    @staticmethod
    def sin(a):
        if not isinstance(a, Ang):
            raise TypeError('sin of a non-angle')
        return (2 * a.t) / (1 + a.t * a.t)

    @staticmethod
    def tan(a):
        if not isinstance(a, Half):
            raise TypeError('tan of something that is not fov * pi / 360')
        return a.t

    @staticmethod
    def radians(a):
        if not isinstance(a, Deg):
            raise TypeError('radians of a non-angle')
        return Ang(a.t)

    @staticmethod
    def atan2(y, x):
        r = exact_root(Fraction(x) ** 2 + Fraction(y) ** 2)
        return Ang(Fraction(y) / (r + x))                   # ZeroDivisionError at pi / origin


def enc(x):
    if isinstance(x, Ang):
        return ['a', x.t.numerator, x.t.denominator]
    if isinstance(x, Deg):
        return ['d', x.t.numerator, x.t.denominator]
    x = Fraction(x)
    return [x.numerator, x.denominator]


def dec(p):
    if p[0] == 'a':
        return Ang(Fraction(p[1], p[2]))
    if p[0] == 'd':
        return Deg(Fraction(p[1], p[2]))
    return Fraction(p[0], p[1])


# ------------------------------------------------------------------ sets
ANGLE_KEYS = {'Vec2.from_polar', 'Vec2.heading', 'Vec2.from_heading', 'Vec2.rotate',
              'Mat4.rotate', 'Mat4.from_rotation', 'Mat3.rotate', 'Mat4.perspective_projection'}
FLOAT_ONLY = {'Mat4.perspective_projection/fov60'}
ROUND_KEYS = {'%s.__round__/%s' % (c, k) for c in ('Vec2', 'Vec3', 'Vec4', 'Mat3', 'Mat4')
              for k in ('n', '2')}
SECOND = ANGLE_KEYS | ROUND_KEYS | {
    'Mat4.scale', 'Mat4.look_at', 'Mat3.scale', 'Mat3.translate', 'Mat3.shear'} | {
    'Mat4.%s/%d' % (w, k) for w in ('row', 'column') for k in range(4)}


# ------------------------------------------------------------ small algebra
def dot(u, v):
    return sum((a * b for a, b in zip(u, v)), Fraction(0))


def cross(u, v):
    return [u[1] * v[2] - u[2] * v[1], u[2] * v[0] - u[0] * v[2], u[0] * v[1] - u[1] * v[0]]


def mm(n, A, B):
    return [sum((A[i * n + k] * B[k * n + j] for k in range(n)), Fraction(0))
            for i in range(n) for j in range(n)]


def rodrigues_grid(c, s, u):
    """row-vector convention: p -> c p + s (u x p) + (1 - c)(u.p) u"""
    g = [Fraction(int(i == j)) for i in range(4) for j in range(4)]
    for i in range(3):
        e = [Fraction(int(k == i)) for k in range(3)]
        ue = cross(u, e)
        for j in range(3):
            g[i * 4 + j] = (c if i == j else 0) + (1 - c) * u[i] * u[j] + s * ue[j]
    return g


# --------------------------------------------------------------- generators
UNIT3 = [(1, 2, 2, 3), (2, 3, 6, 7), (1, 4, 8, 9), (4, 4, 7, 9), (2, 6, 9, 11), (6, 6, 7, 11),
         (0, 3, 4, 5), (0, 0, 1, 1), (3, 4, 12, 13), (2, 10, 11, 15)]
PY3 = [t[:3] for t in UNIT3]
PY2 = [(3, 4), (4, 3), (5, 12), (8, 15), (0, 1), (1, 0), (6, 8), (20, 21)]


def rq(rng):
    return Fraction(rng.randint(-9, 9), rng.choice((1, 1, 1, 2, 2, 3, 4, 5, 8)))


def rang(rng):
    return Fraction(rng.randint(-7, 7), rng.choice((1, 1, 2, 3, 4, 5)))


def sperm(rng, t, scale=1):
    t = list(t)
    rng.shuffle(t)
    return [Fraction(x * rng.choice((1, -1))) * scale for x in t]


def rmat(rng, n):
    if rng.random() < 0.3:
        m = [Fraction(int(i == j)) for i in range(n) for j in range(n)]
        for _ in range(rng.randint(0, 4)):
            m[rng.randrange(n * n)] = rq(rng)
        return m
    return [rq(rng) for _ in range(n * n)]


def dyq(rng):
    return Fraction(rng.randint(-16, 16), rng.choice((1, 1, 2, 4, 8)))


def is_dy(x):
    d = Fraction(x).denominator
    return d & (d - 1) == 0 and d <= 4096 and abs(Fraction(x).numerator) < 1 << 24


def dymat(rng, n):
    if rng.random() < 0.3:
        m = [Fraction(int(i == j)) for i in range(n) for j in range(n)]
        for _ in range(rng.randint(0, 4)):
            m[rng.randrange(n * n)] = dyq(rng)
        return m
    return [dyq(rng) for _ in range(n * n)]


def axis(rng):
    r = rng.random()
    if r < 0.6:                               # a unit axis
        t = rng.choice(UNIT3)
        return sperm(rng, t[:3], Fraction(1, t[3]))
    if r < 0.8:                               # any axis in the box the assert allows
        return [Fraction(rng.randint(-8, 8), 8) for _ in range(3)]
    return sperm(rng, (0, 0, 1))


def gen2(key, rng):
    """exact inputs (numbers and angle tokens) for a second-round method"""
    if key == 'Vec2.from_polar':
        return [rq(rng), Ang(rang(rng))]
    if key in ('Vec2.heading', 'Vec2.from_heading', 'Vec2.rotate'):
        while True:
            a = sperm(rng, rng.choice(PY2), Fraction(rng.choice((1, 2, 3)), rng.choice((1, 2, 5))))
            xs = a + ([] if key == 'Vec2.heading' else [Ang(rang(rng))])
            if dom2(key, xs):
                return xs
    if key == 'Mat4.scale':
        return rmat(rng, 4) + [rq(rng) for _ in range(3)]
    if key == 'Mat4.rotate':
        return rmat(rng, 4) + [Ang(rang(rng))] + axis(rng)
    if key == 'Mat4.from_rotation':
        # cls() is the float identity, so everything is multiplied by 1.0 / 0.0:
        # exact only on dyadic values, i.e. right angles and dyadic axes
        # (general angles are exercised through Mat4.rotate on Fraction matrices)
        return [Ang(rng.choice((0, 1, -1)))] + [Fraction(rng.randint(-8, 8), 8) for _ in range(3)]
    if key == 'Mat4.perspective_projection':
        while True:
            xs = [rq(rng) for _ in range(6)] + [Deg(rang(rng))]
            if dom2(key, xs):
                return xs
    if key == 'Mat4.look_at':
        while True:
            p = [rq(rng) for _ in range(3)]
            d = sperm(rng, rng.choice(PY3), Fraction(rng.choice((1, 2, 3)), rng.choice((1, 2, 3))))
            up = sperm(rng, rng.choice(PY3), Fraction(1, rng.choice((1, 2, 3))))
            if rng.random() < 0.4:            # up perpendicular to the direction
                c = cross(d, up)
                try:
                    exact_root(dot(c, c))
                    up = c
                except ValueError:
                    pass
            xs = p + [x + y for x, y in zip(p, d)] + up
            if dom2(key, xs):
                return xs
    # the Mat3 transforms multiply with a tuple of float literals (1.0, 0.0):
    # exact on dyadic values only
    if key == 'Mat3.scale':
        return dymat(rng, 3) + [Fraction(rng.choice((1, -1)) * rng.choice((1, 2, 4)),
                                         rng.choice((1, 2, 4))) for _ in range(2)]
    if key in ('Mat3.translate', 'Mat3.shear'):
        return dymat(rng, 3) + [dyq(rng), dyq(rng)]
    if key == 'Mat3.rotate':
        return dymat(rng, 3) + [Deg(rng.choice((0, 1, -1)))]
    if key.startswith('Mat4.row/') or key.startswith('Mat4.column/'):
        return rmat(rng, 4)
    if key in ROUND_KEYS:
        n = {'Vec2': 2, 'Vec3': 3, 'Vec4': 4, 'Mat3': 9, 'Mat4': 16}[key[:4]]
        out = []
        for _ in range(n):
            r = rng.random()
            if r < 0.35:                      # exact ties (round half to even)
                out.append(Fraction(2 * rng.randint(-40, 40) + 1, rng.choice((2, 200))))
            elif r < 0.7:
                out.append(Fraction(rng.randint(-5000, 5000), rng.choice((3, 7, 8, 1000, 16, 125))))
            else:
                out.append(Fraction(rng.randint(-30, 30)))
        return out
    raise KeyError(key)


def dom2(key, xs):
    """inside the domain where the scripted math is defined (rational roots,
    no angle equal to pi) and where the property says something"""
    try:
        if key in ('Vec2.heading', 'Vec2.rotate'):
            r = exact_root(xs[0] ** 2 + xs[1] ** 2)
            if r + xs[0] == 0:
                return False
            if key == 'Vec2.rotate':
                h = Shim.atan2(xs[1], xs[0])
                return 1 - h.t * xs[2].t != 0
            return True
        if key == 'Vec2.from_heading':
            exact_root(xs[0] ** 2 + xs[1] ** 2)
            return True
        if key == 'Mat4.rotate':
            return all(abs(x) <= 1 for x in xs[-3:])
        if key == 'Mat4.from_rotation':
            return xs[0].t in (0, 1, -1) and all(abs(x) <= 1 and is_dy(x) for x in xs[1:])
        if key in ('Mat3.translate', 'Mat3.shear'):
            return all(is_dy(x) for x in xs)
        if key == 'Mat3.rotate':
            return xs[9].t in (0, 1, -1) and all(is_dy(x) for x in xs[:9])
        if key == 'Mat4.perspective_projection':
            l, r, b, t, n, f, fov = xs
            return l != r and b != t and n != f and n != 0 and fov.t != 0
        if key == 'Mat4.look_at':
            p, t, up = xs[0:3], xs[3:6], xs[6:9]
            d = [x - y for x, y in zip(t, p)]
            exact_root(dot(d, d))
            exact_root(dot(up, up))
            c = cross(d, up)
            return any(x != 0 for x in c)
        if key == 'Mat3.scale':
            return (all(is_dy(x) for x in xs) and xs[9] != 0 and xs[10] != 0
                    and all(abs(x).numerator == 1 or abs(x).denominator == 1 and
                            abs(x).numerator & (abs(x).numerator - 1) == 0 for x in xs[9:]))
    except (ValueError, ZeroDivisionError):
        return False
    return True


# ---------------------------------------------------- textbook oracle (exact)
def py_round(x, nd):
    """round half to even to nd decimals, written independently of Fraction.__round__"""
    y = x * Fraction(10) ** nd
    f = y.numerator // y.denominator
    r = y - f
    if r > Fraction(1, 2) or (r == Fraction(1, 2) and f % 2 == 1):
        f += 1
    return Fraction(f) / Fraction(10) ** nd


def spec2(key, xs, out, warned):
    if warned:
        return False
    eq = lambda a, b: len(a) == len(b) and all(x == y for x, y in zip(a, b))
    if key == 'Vec2.from_polar':
        m, a = xs
        return eq(out, [m * Shim.cos(a), m * Shim.sin(a)])
    if key == 'Vec2.heading':
        h = out[0]
        r = exact_root(xs[0] ** 2 + xs[1] ** 2)
        return isinstance(h, Ang) and r * Shim.cos(h) == xs[0] and r * Shim.sin(h) == xs[1]
    if key == 'Vec2.from_heading':
        r = exact_root(xs[0] ** 2 + xs[1] ** 2)
        return eq(out, [r * Shim.cos(xs[2]), r * Shim.sin(xs[2])])
    if key == 'Vec2.rotate':
        c, s = Shim.cos(xs[2]), Shim.sin(xs[2])
        return eq(out, [c * xs[0] - s * xs[1], s * xs[0] + c * xs[1]])
    if key == 'Mat4.scale':
        A, s = list(xs[:16]), xs[16:]
        for i in range(3):
            A[5 * i] *= s[i]
        return eq(out, A)
    if key in ('Mat4.rotate', 'Mat4.from_rotation'):
        if key == 'Mat4.rotate':
            A, a, u = xs[:16], xs[16], xs[17:]
        else:
            A, a, u = [Fraction(int(i == j)) for i in range(4) for j in range(4)], xs[0], xs[1:]
        return eq(out, mm(4, A, rodrigues_grid(Shim.cos(a), Shim.sin(a), u)))
    if key == 'Mat4.perspective_projection':
        l, r, b, t, n, f, fov = xs
        ct = 1 / fov.t
        asp = (r - l) / (t - b)
        return eq(out, [ct / asp, 0, 0, 0, 0, ct, 0, 0, 0, 0, -(f + n) / (f - n), -1,
                        0, 0, -(2 * f * n) / (f - n), 0])
    if key == 'Mat4.look_at':
        p, t, up = xs[0:3], xs[3:6], xs[6:9]
        d = [x - y for x, y in zip(t, p)]
        nd, nu = exact_root(dot(d, d)), exact_root(dot(up, up))
        f = [x / nd for x in d]
        s = cross(f, [x / nu for x in up])
        u = cross(s, f)
        return eq(out, [s[0], u[0], -f[0], 0, s[1], u[1], -f[1], 0, s[2], u[2], -f[2], 0,
                        -dot(s, p), -dot(u, p), dot(f, p), 1])
    if key.startswith('Mat3.'):
        A = xs[:9]
        if key == 'Mat3.scale':
            B = [1 / xs[9], 0, 0, 0, 1 / xs[10], 0, 0, 0, 1]
        elif key == 'Mat3.translate':
            B = [1, 0, 0, 0, 1, 0, -xs[9], xs[10], 1]
        elif key == 'Mat3.shear':
            B = [1, xs[10], 0, xs[9], 1, 0, 0, 0, 1]
        elif key == 'Mat3.rotate':
            a = Ang(xs[9].t)
            c, s = Shim.cos(a), Shim.sin(a)
            B = [c, s, 0, -s, c, 0, 0, 0, 1]
        else:
            return eq(out, [py_round(x, 0 if key.endswith('/n') else 2) for x in xs])
        return eq(out, mm(3, A, [Fraction(x) for x in B]))
    if key.startswith('Mat4.row/'):
        k = int(key[-1])
        return eq(out, xs[4 * k:4 * k + 4])
    if key.startswith('Mat4.column/'):
        k = int(key[-1])
        return eq(out, xs[k::4])
    if key in ROUND_KEYS:
        return eq(out, [py_round(x, 0 if key.endswith('/n') else 2) for x in xs])
    return None


# ------------------------------------------------------- float tests (TEST)
FLOAT2 = ['Mat4.rotate', 'Mat4.from_rotation', 'Mat4.perspective_projection',
          'Mat4.perspective_projection/fov60', 'Mat4.look_at', 'Mat3.rotate']


def float2_inputs(key, rng):
    u = lambda: rng.uniform(-1e3, 1e3)
    if key in ('Mat4.rotate', 'Mat4.from_rotation'):
        while True:
            a = [rng.gauss(0, 1) for _ in range(3)]
            n = math.sqrt(sum(x * x for x in a))
            if n > 1e-3:
                break
        a = [x / n for x in a]
        a = [max(-1.0, min(1.0, x)) for x in a]
        pre = [rng.uniform(-10, 10) for _ in range(16)] if key == 'Mat4.rotate' else []
        return pre + [rng.uniform(-6.3, 6.3)] + a
    if key.startswith('Mat4.perspective_projection'):
        l, b, n = u(), u(), rng.uniform(0.1, 10)
        xs = [l, l + rng.uniform(1, 1e3), b, b + rng.uniform(1, 1e3), n, n + rng.uniform(1, 1e3)]
        return xs + ([rng.uniform(10, 150)] if key.count('/') == 0 else [])
    if key == 'Mat4.look_at':
        return [rng.uniform(-1e2, 1e2) for _ in range(9)]
    if key == 'Mat3.rotate':
        return [rng.uniform(-10, 10) for _ in range(9)] + [rng.uniform(-720, 720)]
    raise KeyError(key)


def float2_ok(key, xs, out, tol=1e-9):
    def close(a, b, scale=1.0):
        return abs(a - b) <= tol * max(scale, abs(a), abs(b))

    def closes(a, b, scale=1.0):
        return len(a) == len(b) and all(close(x, y, scale) for x, y in zip(a, b))
    if key in ('Mat4.rotate', 'Mat4.from_rotation'):
        if key == 'Mat4.rotate':
            A, th, u = xs[:16], xs[16], xs[17:]
        else:
            A, th, u = [float(i == j) for i in range(4) for j in range(4)], xs[0], xs[1:]
        c, s = math.cos(th), math.sin(th)
        G = [float(i == j) for i in range(4) for j in range(4)]
        for i in range(3):
            e = [float(k == i) for k in range(3)]
            ue = [u[1] * e[2] - u[2] * e[1], u[2] * e[0] - u[0] * e[2], u[0] * e[1] - u[1] * e[0]]
            for j in range(3):
                G[i * 4 + j] = (c if i == j else 0.0) + (1 - c) * u[i] * u[j] + s * ue[j]
        want = [sum(A[i * 4 + k] * G[k * 4 + j] for k in range(4)) for i in range(4)
                for j in range(4)]
        sc = max(1.0, max(abs(x) for x in A))
        return closes(out, want, sc)
    if key.startswith('Mat4.perspective_projection'):
        l, r, b, t, n, f = xs[:6]
        fov = xs[6] if len(xs) == 7 else 60.0
        ct = 1.0 / math.tan(math.radians(fov) / 2)
        asp = (r - l) / (t - b)
        want = [ct / asp, 0, 0, 0, 0, ct, 0, 0, 0, 0, -(f + n) / (f - n), -1,
                0, 0, -(2 * f * n) / (f - n), 0]
        return closes(out, want)
    if key == 'Mat4.look_at':
        p, t, up = xs[0:3], xs[3:6], xs[6:9]
        d = [x - y for x, y in zip(t, p)]
        nd = math.sqrt(sum(x * x for x in d))

        def img(q):
            v = list(q) + [1.0]
            return [sum(v[k] * out[k * 4 + j] for k in range(4)) for j in range(4)]
        sc = max(1.0, nd, max(abs(x) for x in p))
        return closes(img(p), [0, 0, 0, 1], sc) and closes(img(t), [0, 0, -nd, 1], sc)
    if key == 'Mat3.rotate':
        A, phi = xs[:9], xs[9]
        c, s = math.cos(math.radians(phi)), math.sin(math.radians(phi))
        B = [c, s, 0, -s, c, 0, 0, 0, 1]
        want = [sum(A[i * 3 + k] * B[k * 3 + j] for k in range(3)) for i in range(3)
                for j in range(3)]
        return closes(out, want, 10.0)
    return None
