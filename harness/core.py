"""Common machinery of the desper checks (DESIGN.md section 2.3 / 2.4).

A property module (harness/props/cXX.py) provides generators, an
implementation runner and an encoder of observed traces into Coq literals;
this module runs the implementation in child processes that import desper
from /repo's *current working tree*, has Coq evaluate the model's own
definitions (wf_b, known_b, accepts, holds_b) on the observed traces with
vm_compute, decides, shrinks, searches and writes evidence.
"""
import hashlib
import importlib
import json
import os
import random
import re
import shutil
import subprocess
import sys
import tempfile
import time
from concurrent.futures import ThreadPoolExecutor

ROOT = os.path.dirname(os.path.dirname(os.path.abspath(__file__)))
COQ = os.path.join(ROOT, 'coq')
REPO = os.environ.get('DESPER_REPO', '/repo')
PY = '/venv/bin/python'
NPROC = min(16, os.cpu_count() or 4)
SHARD = 48           # traces per generated .v file
W_WF, W_KNOWN, W_ACC, W_HOLDS = 1, 2, 4, 8


class Internal(Exception):
    """The machinery itself is broken (exit 2, never a VIOLATION)."""


# ---------------------------------------------------------------- Coq text
def z(n):
    n = int(n)
    return str(n) if n >= 0 else '(%d)' % n


def b(x):
    return 'true' if x else 'false'


def lst(items):
    return '[' + '; '.join(items) + ']'


def zl(ns):
    return lst([z(n) for n in ns])


def opt(x):
    return 'None' if x is None else '(Some %s)' % x


def pair(*xs):
    return '(' + ', '.join(xs) + ')'


def app(f, *xs):
    return '(' + ' '.join((f,) + tuple(xs)) + ')'


# ------------------------------------------------------- running the code
def run_impl(prop, cases, seed, timeout=None, confirm_hangs=False):
    traces = _run_impl(prop, cases, seed, timeout)
    if confirm_hangs:
        # A hang is an observation (non-termination is a violation of C04 and
        # others), but a stalled machine must not be mistaken for one: the
        # first hung cases are run again, alone, with five times the alarm.
        hung = [i for i, t in enumerate(traces) if isinstance(t, dict) and t.get('hang')]
        probe = hung[:4]
        cleared = False
        for i in probe:
            os.environ['VERIF_TIMEOUT_SCALE'] = '5'
            try:
                (t,) = _run_impl(prop, [cases[i]], seed, timeout)
            finally:
                os.environ.pop('VERIF_TIMEOUT_SCALE', None)
            if not (isinstance(t, dict) and t.get('hang')):
                traces[i] = t
                cleared = True
        if cleared:                 # load-induced: give every hung case a second chance
            for i in hung[4:]:
                os.environ['VERIF_TIMEOUT_SCALE'] = '5'
                try:
                    (traces[i],) = _run_impl(prop, [cases[i]], seed, timeout)
                finally:
                    os.environ.pop('VERIF_TIMEOUT_SCALE', None)
    return traces


def _run_impl(prop, cases, seed, timeout=None):
    """Run `cases` against the real desper in worker processes.

    Returns one trace (JSON value) per case; a worker that dies or hangs
    yields {'hang': True} / {'crash': ...} for the case it was running.
    """
    if not cases:
        return []
    nw = max(1, min(NPROC, (len(cases) + 7) // 8))
    chunks = [list(range(i, len(cases), nw)) for i in range(nw)]
    traces = [None] * len(cases)

    def work(wi):
        idx = chunks[wi]
        env = dict(os.environ)
        env.update(PYTHONPATH=REPO + os.pathsep + ROOT,
                   PYTHONHASHSEED=str((seed * 31 + wi * 7 + 1) % 4294967295),
                   PYTHONDONTWRITEBYTECODE='1', DESPER_VERIF='1')
        pending = list(idx)
        while pending:
            inp = '\n'.join(json.dumps(cases[i]) for i in pending) + '\n'
            to = timeout or (30 + 8 * len(pending)) * int(os.environ.get('VERIF_TIMEOUT_SCALE', '1'))
            try:
                r = subprocess.run([PY, '-m', 'harness.worker', prop.__name__],
                                   input=inp, capture_output=True, text=True,
                                   env=env, cwd=ROOT, timeout=to)
                out, err = r.stdout, r.stderr
            except subprocess.TimeoutExpired as ex:
                out = (ex.stdout or b'').decode() if isinstance(
                    ex.stdout, bytes) else (ex.stdout or '')
                err = 'worker timeout'
            lines = [ln for ln in out.split('\n') if ln.startswith('T ')]
            for i, ln in zip(pending, lines):
                traces[i] = json.loads(ln[2:])
            done = len(lines)
            if done >= len(pending):
                break
            # the worker died or hung inside case pending[done]
            traces[pending[done]] = {'hang': True, 'stderr': err[-2000:]}
            pending = pending[done + 1:]

    with ThreadPoolExecutor(nw) as ex:
        list(ex.map(work, range(nw)))
    return traces


# ----------------------------------------------------- evaluating in Coq
HEADER = ('From Coq Require Import ZArith List Bool String.\n'
          'Import ListNotations.\nOpen Scope Z_scope.\n')


def coqc(path, timeout=600):
    r = subprocess.run(['coqc', '-q', '-Q', os.path.join(COQ, 'theories'),
                        'Desper', path], capture_output=True, text=True,
                       timeout=timeout, cwd=os.path.dirname(path))
    return r.returncode, r.stdout, r.stderr


def eval_coq(prop, terms, workdir):
    """Evaluate prop.VERDICT on each Coq term; returns a list of ints."""
    if not terms:
        return []
    shards = [terms[i:i + SHARD] for i in range(0, len(terms), SHARD)]
    os.makedirs(workdir, exist_ok=True)
    stamp = '%d_%d' % (os.getpid(), int(time.time() * 1000) % 10 ** 9)

    def one(k):
        name = 'T_%s_%s_%d' % (prop.ID, stamp, k)
        path = os.path.join(workdir, name + '.v')
        with open(path, 'w') as f:
            f.write(HEADER)
            f.write('Require Import %s.\n' % prop.COQ_MODULE)
            for j, t in enumerate(shards[k]):
                f.write('Definition c%d : %s := %s.\n' % (j, prop.CASE_TYPE, t))
            f.write('Definition cases := %s.\n' % lst(
                ['c%d' % j for j in range(len(shards[k]))]))
            f.write('Eval vm_compute in (List.map %s cases).\n' % prop.VERDICT)
        rc, out, err = coqc(path)
        if rc != 0:
            raise Internal('coqc failed on generated shard %s:\n%s' % (
                path, (err or out)[-3000:]))
        m = re.search(r'=\s*\[(.*?)\]\s*:\s*list nat', out, re.S)
        if not m:
            raise Internal('cannot parse Coq output of %s: %s' % (path, out[-500:]))
        body = m.group(1).strip()
        vals = [int(x.replace('%nat', '')) for x in body.split(';')] if body else []
        if len(vals) != len(shards[k]):
            raise Internal('verdict count mismatch in %s' % path)
        for ext in ('.v', '.vo', '.vok', '.vos', '.glob', '.aux'):
            for p in (path[:-2] + ext, os.path.join(workdir, '.' + name + ext)):
                if os.path.exists(p):
                    os.remove(p)
        return vals

    with ThreadPoolExecutor(NPROC) as ex:
        res = list(ex.map(one, range(len(shards))))
    return [v for vs in res for v in vs]


# ------------------------------------------------------------- the build
FORBIDDEN = re.compile(
    r'\b(Admitted|admit|Axiom|Axioms|Parameter|Parameters|Conjecture|'
    r'Admit Obligations|bypass_check|Unset Guard Checking|'
    r'Unset Positivity Checking|Unset Universe Checking|type-in-type|'
    r'impredicative-set|native_compute)\b')


def strip_comments(text):
    out, depth, i = [], 0, 0
    while i < len(text):
        if text.startswith('(*', i):
            depth += 1
            i += 2
        elif text.startswith('*)', i) and depth:
            depth -= 1
            i += 2
        else:
            if not depth:
                out.append(text[i])
            i += 1
    return ''.join(out)


def scan_forbidden(prop=None):
    """Every file of the project (as listed in _CoqProject) plus the files of
    the property's own family directory."""
    bad = []
    listed = [os.path.join(COQ, ln.strip()) for ln in open(os.path.join(COQ, '_CoqProject'))
              if ln.strip().endswith('.v')]
    if prop is not None:
        fam = os.path.join(COQ, 'theories', prop.COQ_MODULE.split('.')[1])
        listed += [os.path.join(fam, f) for f in os.listdir(fam) if f.endswith('.v')]
        listed.append(os.path.join(COQ, prop.PROPS_FILE))
    for p in sorted(set(listed)):
        if True:
            if True:
                txt = strip_comments(open(p).read())
                # a Variable/Hypothesis outside a section also declares an axiom
                depth = 0
                for ln in txt.split('\n'):
                    s = ln.strip()
                    if re.match(r'Section\b', s):
                        depth += 1
                    elif re.match(r'End\b', s) and depth:
                        depth -= 1
                    if depth == 0 and re.match(
                            r'(Variable|Variables|Hypothesis|Hypotheses|Context)\b', s):
                        bad.append('%s: %s' % (p, s))
                    m = FORBIDDEN.search(ln)
                    if m:
                        bad.append('%s: %s' % (p, s))
    for fn in ('_CoqProject',):
        t = open(os.path.join(COQ, fn)).read()
        if FORBIDDEN.search(t):
            bad.append(fn)
    return bad


def make(target=None, timeout=3000):
    """Bring the .vo files a property needs up to date (no-op after
    setup_cmd).  Only the property's own statement file and its dependencies
    are built, so a broken proof elsewhere does not disturb this check."""
    import fcntl
    with open(os.path.join(COQ, '.build.lock'), 'w') as lk:
        fcntl.flock(lk, fcntl.LOCK_EX)      # one build at a time
        if not os.path.exists(os.path.join(COQ, 'Makefile')):
            subprocess.run(['coq_makefile', '-f', '_CoqProject', '-o', 'Makefile'],
                           cwd=COQ, check=True, capture_output=True)
        cmd = ['make', '-j%d' % NPROC] + ([target] if target else [])
        r = subprocess.run(cmd, cwd=COQ, capture_output=True, text=True,
                           timeout=timeout)
    return r.returncode, (r.stdout + r.stderr)


def check_props_file(prop):
    """Re-check the property's statement file; return theorem names and the
    axioms Print Assumptions reports."""
    path = os.path.join(COQ, prop.PROPS_FILE)
    src = strip_comments(open(path).read())
    names = re.findall(r'^\s*(?:Theorem|Lemma|Corollary|Example)\s+([\w\']+)',
                       src, re.M)
    rc, out, err = coqc(path)
    if rc != 0:
        return names, None, (err or out)
    axioms = []
    for blk in re.split(r'\n(?=Closed under the global context|Axioms:)', out):
        if blk.startswith('Axioms:'):
            for ln in blk.split('\n')[1:]:
                # "name : type" or, for long types, "name" alone on its line
                # followed by an indented ": type"
                m = re.match(r'^([A-Za-z_][\w.\']*)\s*(:|$)', ln)
                if m and m.group(1) not in axioms:
                    axioms.append(m.group(1))
    n_pa = len(re.findall(r'Closed under the global context|Axioms:', out))
    return names, {'axioms': axioms, 'print_assumptions': n_pa}, None


def coqchk(prop):
    """Independent re-check of the statement file and all it depends on."""
    mod = 'Desper.' + prop.PROPS_FILE[len('theories/'):-2].replace('/', '.')
    try:
        r = subprocess.run(['coqchk', '-silent', '-o', '-Q', 'theories', 'Desper', mod],
                           cwd=COQ, capture_output=True, text=True, timeout=3000)
    except subprocess.TimeoutExpired:
        return dict(ok=False, error='coqchk timeout')
    out = r.stdout + r.stderr
    m = re.search(r'\* Axioms:(.*?)\n\s*\n\* Constants', out, re.S)
    ax = [x.strip() for x in (m.group(1) if m else '').split('\n') if x.strip()]
    if r.returncode != 0:
        raise Internal('coqchk rejected %s: %s' % (mod, out[-1500:]))
    return dict(ok=True, module=mod, axioms=ax)


# --------------------------------------------------------- known findings
def known_findings(pid):
    p = os.path.join(ROOT, 'known_findings.json')
    data = json.load(open(p))
    return [k for k in data.get('findings', []) if k['property'] == pid]


def corpus(pid):
    d = os.path.join(ROOT, 'corpus', pid)
    out = []
    if os.path.isdir(d):
        for fn in sorted(os.listdir(d)):
            if fn.endswith('.json'):
                out.append(json.load(open(os.path.join(d, fn)))['case'])
    return out


# ----------------------------------------------------------- shrink/search
def default_shrink(case):
    """Candidates smaller than `case`: drop one op / a tail of ops."""
    ops = case.get('ops')
    if not isinstance(ops, list):
        return
    n = len(ops)
    for k in range(1, n):
        c = dict(case)
        c['ops'] = ops[:k]
        yield c
    for i in range(n):
        c = dict(case)
        c['ops'] = ops[:i] + ops[i + 1:]
        yield c


def classify(v):
    wf, kn, acc, ho = bool(v & 1), bool(v & 2), bool(v & 4), bool(v & 8)
    if not wf:
        return 'illformed'
    if kn:
        return 'known' if not ho else 'known-holds'
    if acc and ho:
        return 'agree'
    if not acc and not ho:
        return 'violation'
    if not acc and ho:
        return 'mismatch'
    return 'contradiction'


class Session:
    def __init__(self, prop, seed):
        self.prop, self.seed = prop, seed
        self.workdir = os.path.join(COQ, 'gen', '%s_%d' % (prop.ID, os.getpid()))
        self.n_impl = 0
        self.n_coq = 0

    def evaluate(self, cases, confirm_hangs=False):
        traces = run_impl(self.prop, cases, self.seed, confirm_hangs=confirm_hangs)
        self.n_impl += len(cases)
        terms = [self.prop.encode(c, t) for c, t in zip(cases, traces)]
        verdicts = eval_coq(self.prop, terms, self.workdir)
        self.n_coq += len(terms)
        return traces, verdicts

    def shrink(self, case, want, rounds=40):
        shr = getattr(self.prop, 'shrink', default_shrink)
        cur = case
        for _ in range(rounds):
            cands = list(shr(cur))[:400]
            if not cands:
                break
            _, vs = self.evaluate(cands)
            nxt = None
            for c, v in zip(cands, vs):
                if classify(v) == want:
                    nxt = c
                    break
            if nxt is None:
                break
            cur = nxt
        return cur

    def search(self, case, rng, budget):
        """Look around a rejected-but-holding case for a real violation."""
        mut = getattr(self.prop, 'mutate', None)
        cands = []
        if mut:
            cands += list(mut(case, rng))[:budget // 2]
        extra = getattr(self.prop, 'gen', None)
        if extra:
            cands += self.prop.gen(random.Random(rng.random()), 'search')[:budget - len(cands)]
        if not cands:
            return None
        _, vs = self.evaluate(cands)
        for c, v in zip(cands, vs):
            if classify(v) == 'violation':
                return c
        return None

    def close(self):
        shutil.rmtree(self.workdir, ignore_errors=True)


def write_replay(pid, case, trace, verdict, extra):
    d = os.path.join(ROOT, 'replays')
    os.makedirs(d, exist_ok=True)
    h = hashlib.sha1(json.dumps(case, sort_keys=True).encode()).hexdigest()[:10]
    path = os.path.join(d, '%s-%s.json' % (pid, h))
    json.dump(dict(property=pid, case=case, trace=trace, verdict=verdict,
                   verdict_bits='wf=1 known=2 accepts=4 holds=8', **extra),
              open(path, 'w'), indent=1)
    return path


def write_evidence(pid, ev):
    # runs against a scratch copy (seeded bugs) must not overwrite the
    # evidence of /repo itself
    d = os.path.join(ROOT, 'evidence' if REPO == '/repo' else 'evidence_scratch')
    os.makedirs(d, exist_ok=True)
    json.dump(ev, open(os.path.join(d, pid + '.json'), 'w'), indent=1)


def load_prop(pid):
    return importlib.import_module('harness.props.' + pid.lower())


def check(pid, tier, seed):
    t0 = time.time()
    prop = load_prop(pid)
    rng = random.Random(seed * 1000003 + int(pid[1:]))
    out_lines = []
    violations = []
    ev_cov = {}
    sess = Session(prop, seed)
    try:
        pre = getattr(prop, 'prebuild', None)
        pre_info = pre(tier, seed) if pre else None
        if prop.PROPS_FILE in open(os.path.join(COQ, '_CoqProject')).read():
            rc, log = make(prop.PROPS_FILE[:-2] + '.vo')
        else:       # family still under development: files compiled by hand
            rc, log = 0, ''
        build_fail = None
        if rc != 0:
            build_fail = log[-4000:]
        bad = scan_forbidden(prop)
        if bad:
            raise Internal('forbidden declarations in the development: %s' % bad[:5])
        names, pa, perr = (None, None, None)
        if not build_fail:
            names, pa, perr = check_props_file(prop)
        if build_fail or perr:
            # A proof obligation no longer checks.  Only possible for models
            # regenerated from the source; hand-written models cannot be
            # broken by a change to /repo.
            handler = getattr(prop, 'on_proof_failure', None)
            if handler is None:
                raise Internal('Coq build failed:\n%s' % (build_fail or perr))
            res = handler(build_fail or perr, rng, tier, seed)
            path = write_replay(pid, res.get('case'), res.get('trace'), None,
                                dict(kind='proof-obligation', failing=res['failing'],
                                     detail=(build_fail or perr)[-3000:],
                                     found_input=res.get('case') is not None))
            tail = '' if res.get('case') is not None else ' no-failing-input-found'
            out_lines.append('VIOLATION property=%s replay=%s%s' % (pid, path, tail))
            violations.append(path)
            ev_cov = dict(obligations=max(1, len(names or [1])), discharged=0,
                          checker_cmd='make -C coq && coqc ' + prop.PROPS_FILE,
                          trusted_base=prop.TRUSTED, evaluations=res.get('tried', 0),
                          explanation='a proof obligation failed: ' + res['failing'])
            return finish(pid, tier, seed, t0, ev_cov, violations, out_lines, prop)

        kfs = known_findings(pid)
        cases, origin = [], []
        for c in corpus(pid):
            cases.append(c)
            origin.append('corpus')
        for k in kfs:
            for w in k.get('witnesses', []):
                cases.append(w)
                origin.append('known:' + k['id'])
        gen_cases = prop.gen(rng, tier)
        cases += gen_cases
        origin += ['gen'] * len(gen_cases)

        traces, verdicts = sess.evaluate(cases, confirm_hangs=True)
        classes = [classify(v) for v in verdicts]
        counts = {}
        for c in classes:
            counts[c] = counts.get(c, 0) + 1

        # known findings: one line per listed finding that reproduces
        reproduced = []
        for k in kfs:
            hit = any(o == 'known:' + k['id'] and cl == 'known'
                      for o, cl in zip(origin, classes))
            if hit:
                reproduced.append(k['id'])
                out_lines.append('KNOWN-FINDING: property=%s %s: %s' % (
                    pid, k['id'], k['what']))
        # witnesses must be recognised by known_b, otherwise they are
        # ordinary cases and judged as such below.

        seen_reports = 0
        internal = []
        for i, cl in enumerate(classes):
            if cl in ('agree', 'known', 'known-holds'):
                continue
            if cl in ('illformed', 'contradiction'):
                if origin[i] == 'gen' and getattr(prop, 'MALFORMED_OK', False) and cl == 'illformed':
                    continue
                # judged at the end: if the same run exhibits real violations
                # they are what gets reported (an implementation that breaks a
                # property can also push generated cases out of the domain)
                internal.append('%s case from %s: %s (verdict %d)' % (
                    cl, origin[i], json.dumps(cases[i])[:1500], verdicts[i]))
                continue
            if seen_reports >= 3:
                continue
            seen_reports += 1
            small = sess.shrink(cases[i], cl)
            (tr,), (v,) = sess.evaluate([small])
            if classify(v) != cl:       # flaky (eg. set order): keep original
                small, tr, v = cases[i], traces[i], verdicts[i]
            found = small if cl == 'violation' else None
            if cl == 'mismatch':
                found = sess.search(small, rng, 600 if tier == 'quick' else 4000)
                if found is not None:
                    found = sess.shrink(found, 'violation')
                    (tr,), (v,) = sess.evaluate([found])
                    small = found
            extra = dict(kind=cl, origin=origin[i],
                         failing=('%s: the implementation\'s trace is rejected by the '
                                  'model (accepts = false)' % prop.COQ_MODULE)
                         if found is None else 'holds_b = false on this history',
                         theorem=prop.THEOREM)
            path = write_replay(pid, small, tr, v, extra)
            tail = '' if found is not None else ' no-failing-input-found'
            out_lines.append('VIOLATION property=%s replay=%s%s' % (pid, path, tail))
            violations.append(path)

        if internal and not violations:
            bad = [i for i, cl in enumerate(classes) if cl == 'contradiction' or
                   (cl == 'illformed' and origin[i] != 'gen')]
            if bad:
                raise Internal(internal[0])
            # Generated cases are well-formed by construction (checked on every
            # run of the unchanged tree); wf_b may read observations, so an
            # ill-formed verdict means the implementation's behaviour pushed
            # the case out of the domain: the correspondence no longer checks.
            i = [k for k, cl in enumerate(classes) if cl == 'illformed'][0]
            path = write_replay(pid, cases[i], traces[i], verdicts[i], dict(
                kind='out-of-domain', origin=origin[i], theorem=prop.THEOREM,
                failing='%s: the observed trace of a generated (well-formed by '
                        'construction) case is outside wf_b' % prop.COQ_MODULE))
            out_lines.append('VIOLATION property=%s replay=%s no-failing-input-found' % (pid, path))
            violations.append(path)

        keys = set()
        nontriv = 0
        for c, t in zip(cases, traces):
            kf = getattr(prop, 'key', None)
            kx = kf(c, t) if kf else hashlib.sha1(
                json.dumps([c, t], sort_keys=True, default=str).encode()).hexdigest()
            if kx in keys:
                continue
            keys.add(kx)
            if prop.nontrivial(c, t):
                nontriv += 1
        samples = []
        for i in (list(range(len(cases)))[-3:]):
            samples.append(dict(case=cases[i], trace=traces[i], verdict=verdicts[i]))
        stats = getattr(prop, 'stats', None)
        ev_cov = dict(
            obligations=len(names), discharged=len(names),
            theorems=names,
            checker_cmd=('make -C /verif/coq (all proofs) ; coqc -Q theories Desper '
                         + prop.PROPS_FILE + ' ; coqc on %d generated trace shards '
                         '(vm_compute of %s)' % ((len(cases) + SHARD - 1) // SHARD,
                                                 prop.VERDICT)),
            trusted_base=list(prop.TRUSTED) + [
                'axioms reported by Print Assumptions: ' + (
                    ', '.join(pa['axioms']) if pa['axioms'] else
                    'none (closed under the global context)')],
            print_assumptions_blocks=pa['print_assumptions'],
            evaluations=len(cases), distinct_nontrivial=nontriv,
            traces_validated_against_impl=counts.get('agree', 0),
            rule=prop.RULE, samples=samples, verdict_classes=counts,
            impl_runs_total=sess.n_impl, coq_evaluations_total=sess.n_coq,
            known_findings_reproduced=reproduced,
            repo_head=subprocess.run(['git', '-C', REPO, 'rev-parse', 'HEAD'],
                                     capture_output=True, text=True).stdout.strip(),
            repo_dirty=bool(subprocess.run(['git', '-C', REPO, 'status', '--porcelain',
                                            '--untracked-files=no'], capture_output=True,
                                           text=True).stdout.strip()),
        )
        if pre_info:
            ev_cov['prebuild'] = pre_info
        if tier == 'thorough':
            ev_cov['coqchk'] = coqchk(prop)
        if stats:
            ev_cov['distribution'] = stats(cases, traces)
        extra_cov = getattr(prop, 'extra_checks', None)
        if extra_cov:
            more = extra_cov(sess, rng, tier, seed)
            for ln in more.get('lines', []):
                out_lines.append(ln)
                if ln.startswith('VIOLATION'):
                    violations.append(ln)
            ev_cov.update(more.get('coverage', {}))
        return finish(pid, tier, seed, t0, ev_cov, violations, out_lines, prop)
    finally:
        sess.close()


def finish(pid, tier, seed, t0, cov, violations, out_lines, prop):
    ev = dict(property_id=pid, tier=tier, seed=seed, level='proof', coverage=cov,
              assumptions=list(getattr(prop, 'ASSUMPTIONS', [])),
              wall_s=round(time.time() - t0, 2), violations=len(violations))
    write_evidence(pid, ev)
    for ln in out_lines:
        print(ln)
    sys.stdout.flush()
    return 1 if violations else 0


def replay(path, seed):
    data = json.load(open(path))
    prop = load_prop(data['property'])
    if data.get('case') is None or data.get('kind') == 'proof-obligation':
        print('replay file names a failed proof obligation: %s' % data.get('failing'))
        rp = getattr(prop, 'replay_obligation', None)
        return rp(data) if rp else 1
    sess = Session(prop, seed)
    try:
        make(prop.PROPS_FILE[:-2] + '.vo')
        (tr,), (v,) = sess.evaluate([data['case']])
    finally:
        sess.close()
    print(json.dumps(dict(trace=tr), default=str)[:4000])
    print('wf_b=%s known_b=%s accepts=%s holds_b=%s -> %s' % (
        bool(v & 1), bool(v & 2), bool(v & 4), bool(v & 8), classify(v)))
    if classify(v) in ('violation', 'mismatch'):
        print('VIOLATION property=%s replay=%s%s' % (
            data['property'], path, '' if classify(v) == 'violation'
            else ' no-failing-input-found'))
        return 1
    return 0
