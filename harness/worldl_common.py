"""World lifecycle family (C05 deferred deletion, C02 lifecycle callbacks):
generator, implementation runner and encoder shared by c05.py and c02.py.

A case is JSON:
  kinds : list of strings, class t (1-based) declares the events in kinds[t-1]
          ('' = no __events__ at all; letters a = on_add, r = on_remove, p = probe)
  cls   : list of ints, instance i (1-based) is an object of class cls[i-1]
  ops   : list of operations (see run)
  qseed : seed of the query sampler
Entity ids are integers in the case; ids <= 0 are realised as strings /
tuples so that explicit ids of several Python types are exercised.
"""
import random

from harness.core import z, b, lst, opt

POOL = [1, 2, 3, 4, -1, -2]
NEVER = [7, -3]                      # ids no create/add ever uses
KINDS = ['', 'arp', 'ar', 'ap', 'rp', 'a', 'r', 'p']


def ent_py(n):
    if n > 0:
        return n
    return ['z', 'a', ('t', 1), 'never'][-n] if -n < 4 else 'x%d' % -n


def iid(case, i):
    """number of instance i (1-based index) in logs and in the Coq case: the
    instances whose lifecycle callbacks raise during a release are >= 1000"""
    if i in case.get('disablers', ()):
        return i + 2000      # on_add / on_remove set dispatch_enabled = False during a release
    return i + 1000 if i in case.get('raisers', ()) else i


class Marker(Exception):
    """raised by the callbacks of a 'raiser' instance when the release of
    postponed events invokes them"""


def make_ent_z():
    table = {}
    for n in POOL + NEVER:
        table[ent_py(n)] = n

    def ent_z(x):
        try:
            if isinstance(x, int) and not isinstance(x, bool) and x > 0:
                return x
            return table.get(x, -99)
        except TypeError:
            return -99
    return ent_z


# ------------------------------------------------------------------ running
def run(case):
    import desper
    ent_z = make_ent_z()
    log = []
    world = desper.World()
    releasing = [False]

    def snoop(entity):
        # read-only queries from inside a lifecycle callback: they must never
        # raise (an exception propagates and becomes the operation's outcome)
        for c in classes[1:]:
            world.get(c)
            world.has_component(entity, c)
            world.get_component(entity, c)
        world.get_components(entity)
        world.entity_exists(entity)
        tuple(world.entities)
        world.processors

    def halt(me):
        if releasing[0] and me._lid >= 2000:
            world.dispatch_enabled = False
            after_disable()
        elif releasing[0] and me._lid >= 1000:
            raise Marker()

    def mk_class(t, kind):
        ns = {}
        if 'a' in kind:
            def on_add(self, entity, w):
                log.append(['a', self._lid, ent_z(entity), w is world])
                snoop(entity)
                halt(self)
            ns['on_add'] = on_add
        if 'r' in kind:
            def on_remove(self, entity, w):
                log.append(['r', self._lid, ent_z(entity), w is world])
                snoop(entity)
                halt(self)
            ns['on_remove'] = on_remove
        if 'p' in kind:
            def probe(self, tok):
                log.append(['p', self._lid, tok, True])
            ns['probe'] = probe
        c = type('K%d' % t, (), ns)
        names = [n for ch, n in (('a', 'on_add'), ('r', 'on_remove'), ('p', 'probe'))
                 if ch in kind]
        if names:
            c = desper.event_handler(*names)(c)
        return c

    classes = [None]
    classes += [mk_class(t + 1, k) for t, k in enumerate(case['kinds'])]
    insts = [None]
    for i, t in enumerate(case['cls']):
        o = classes[t]()
        o._lid = iid(case, i + 1)
        insts.append(o)
    lid = {id(o): o._lid for o in insts[1:]}

    class P(desper.Processor):
        def process(self, dt=1):
            log.append(['x', 0, 0, True])
    world.add_processor(P())

    known_ids = list(POOL) + list(NEVER)
    rng = random.Random(case.get('qseed', 0))

    def all_queries():
        qs = [['entities']]
        for e in known_ids:
            qs.append(['exists', e])
            qs.append(['comps', e])
        for i in range(1, len(insts)):
            qs.append(['ish', i])
        for t in range(1, len(classes)):
            qs.append(['get', t])
            for e in known_ids:
                qs.append(['has', e, t])
                qs.append(['getc', e, t])
        return qs

    def focus_queries(o):
        # the component queries about the entity the operation names
        if o[0] in ('create', 'add', 'remove', 'delete') and o[1] is not None:
            ts = list(range(1, len(classes)))
            rng.shuffle(ts)
            out = [['exists', o[1]]]
            for t in ts[:2]:
                out += [['has', o[1], t], ['getc', o[1], t]]
            out.append(['get', ts[0]])
            return out
        return []

    def ask(q):
        if q[0] == 'entities':
            return ['entities', [ent_z(e) for e in world.entities]]
        if q[0] == 'exists':
            return ['exists', q[1], bool(world.entity_exists(ent_py(q[1])))]
        if q[0] == 'comps':
            return ['comps', q[1], [lid.get(id(c), -99)
                                    for c in world.get_components(ent_py(q[1]))]]
        if q[0] == 'has':
            return ['has', q[1], q[2], bool(world.has_component(ent_py(q[1]), classes[q[2]]))]
        if q[0] == 'getc':
            c = world.get_component(ent_py(q[1]), classes[q[2]])
            return ['getc', q[1], q[2], None if c is None else lid.get(id(c), -99)]
        if q[0] == 'get':
            return ['get', q[1], [[ent_z(e), lid.get(id(c), -99)]
                                  for e, c in world.get(classes[q[1]])]]
        o = insts[q[1]]
        r = hasattr(o, '__events__') and bool(world.is_handler(o))
        return ['ish', o._lid, r]

    def rows():
        return {e: len(world.get_components(ent_py(e))) > 0 for e in known_ids}

    nested = []
    after_done = [False]       # the operations of case['after'] are performed once

    def exec_op(o, last):
        del log[:]
        ret, exc, done = None, 0, []
        before = rows() if o[0] == 'process' else None
        try:
            if o[0] == 'create':
                comps = [insts[i] for i in o[2]]
                if o[1] is None:
                    got = world.create_entity(*comps)
                else:
                    got = world.create_entity(*comps, entity_id=ent_py(o[1]))
                ret = ent_z(got)
                if ret not in known_ids and ret != -99:
                    known_ids.append(ret)
            elif o[0] == 'add':
                r = world.add_component(ent_py(o[1]), insts[o[2]])
                ret = None if r is None else -99
            elif o[0] == 'remove':
                r = world.remove_component(ent_py(o[1]), classes[o[2]])
                ret = None if r is None else lid.get(id(r), -99)
            elif o[0] == 'delete':
                if o[2]:
                    world.delete_entity(ent_py(o[1]), immediate=True)
                else:
                    world.delete_entity(ent_py(o[1]))
            elif o[0] == 'process':
                world.process(1)
            elif o[0] == 'clear':
                world.clear()
            elif o[0] == 'enable':
                releasing[0] = bool(o[1])
                try:
                    world.dispatch_enabled = bool(o[1])
                finally:
                    releasing[0] = False
            elif o[0] == 'probe':
                world.dispatch('probe', o[1])
            elif o[0] == 'addproc':
                world.add_processor(P())
            else:
                raise ValueError('bad op %r' % (o,))
        except Marker:
            exc = 3
        except KeyError as ex:
            exc = 1
            if o[0] == 'process':
                ret = ent_z(ex.args[0]) if ex.args else -99
                after = rows()
                done = [e for e in known_ids if before[e] and not after[e]]
        except ValueError:
            raise
        except Exception as ex:           # an implementation error is an observation
            exc = 2
        oplog = [list(x) for x in log]
        del log[:]
        qs = all_queries()
        if not last and len(qs) > 6:
            qs = rng.sample(qs, 6) + focus_queries(o)
        answers = []
        for q in qs:
            try:
                answers.append(ask(q))
            except Exception:
                answers.append(['exists', 0, True])     # entity 0 never exists: rejected
        if log:                                        # a query must not call back
            exc = 2
        return dict(ret=ret, exc=exc, done=done, log=oplog, qs=answers)

    def after_disable():
        # operations the disabling callback performs before it returns: dispatching
        # is disabled, so each is atomic and is recorded as an operation of its own
        if after_done[0]:
            return
        after_done[0] = True
        saved = [list(x) for x in log]
        was = releasing[0]
        releasing[0] = False
        try:
            for a in case.get('after', []):
                nested.append([a, exec_op(a, False)])
        finally:
            releasing[0] = was
            log[:] = saved

    out = []
    nops = len(case['ops'])
    for k, o in enumerate(case['ops']):
        del nested[:]
        ob = exec_op(o, k == nops - 1)
        if o[0] == 'enable' and o[1] and ob['exc'] == 0 and not world.dispatch_enabled:
            # a callback executed  dispatch_enabled = False  during the release: that
            # nested assignment (and what the callback did next) become the next
            # operations of the recorded history
            ob['exc'] = 4
            ob['stopped'] = True
            ob['nested'] = [list(x) for x in nested]
        out.append(ob)
    return {'obs': out}


# ----------------------------------------------------------------- encoding
CK = {'a': 'CAdd', 'r': 'CRem', 'p': 'CProbe', 'x': 'CProc'}


def enc_kind(k):
    return '{| k_h := %s; k_add := %s; k_rem := %s; k_probe := %s |}' % (
        b(bool(k)), b('a' in k), b('r' in k), b('p' in k))


def enc_op(o, im=lambda i: i):
    if o[0] == 'create':
        return '(Create %s %s)' % (opt(None if o[1] is None else z(o[1])),
                                   lst([z(im(i)) for i in o[2]]))
    if o[0] == 'add':
        return '(Add %s %s)' % (z(o[1]), z(im(o[2])))
    if o[0] == 'remove':
        return '(Remove %s %s)' % (z(o[1]), z(o[2]))
    if o[0] == 'delete':
        return '(Delete %s %s)' % (z(o[1]), b(o[2]))
    if o[0] == 'enable':
        return '(SetEnabled %s)' % b(o[1])
    if o[0] == 'probe':
        return '(Probe %s)' % z(o[1])
    return {'process': 'Process', 'clear': 'Clear', 'addproc': 'AddProc'}[o[0]]


def enc_q(q):
    if q[0] == 'entities':
        return '(QEntities %s)' % lst([z(e) for e in q[1]])
    if q[0] == 'exists':
        return '(QExists %s %s)' % (z(q[1]), b(q[2]))
    if q[0] == 'comps':
        return '(QComps %s %s)' % (z(q[1]), lst([z(i) for i in q[2]]))
    if q[0] == 'has':
        return '(QHas %s %s %s)' % (z(q[1]), z(q[2]), b(q[3]))
    if q[0] == 'getc':
        return '(QGetC %s %s %s)' % (z(q[1]), z(q[2]), opt(None if q[3] is None else z(q[3])))
    if q[0] == 'get':
        return '(QGet %s %s)' % (z(q[1]), lst(['(%s, %s)' % (z(e), z(i)) for e, i in q[2]]))
    return '(QIsH %s %s)' % (z(q[1]), b(q[2]))


def enc_obs(ob):
    cbs = ['(mkcb %s %s %s %s)' % (CK[c[0]], z(c[1]), z(c[2]), b(c[3])) for c in ob['log']]
    return '(mkobs %s %s %s %s %s)' % (
        opt(None if ob['ret'] is None else z(ob['ret'])), z(ob['exc']),
        lst([z(e) for e in ob['done']]), lst(cbs), lst([enc_q(q) for q in ob['qs']]))


BAD_TRACE = '[(Process, mkobs None 2 [] [] [])]'


def encode(case, trace):
    params = '{| p_cls := %s; p_kinds := %s |}' % (
        lst(['(%s, %s)' % (z(iid(case, i + 1)), z(t)) for i, t in enumerate(case['cls'])]),
        lst(['(%s, %s)' % (z(t + 1), enc_kind(k)) for t, k in enumerate(case['kinds'])]))
    if 'obs' not in trace or len(trace['obs']) != len(case['ops']):
        tr = BAD_TRACE                      # hang / crash: an unacceptable trace
    else:
        items = []
        for o, ob in zip(case['ops'], trace['obs']):
            if ob.get('stopped'):
                im = lambda i: iid(case, i)
                seq = [[['enable', False], dict(ob, exc=0, log=[], qs=[])]] + ob.get('nested', [])
                seq[-1][1] = dict(seq[-1][1], qs=seq[-1][1]['qs'] + ob['qs'])
                items.append('(%s, %s)' % (enc_op(o), enc_obs(dict(ob, qs=[]))))
                for a, oa in seq:
                    items.append('(%s, %s)' % (enc_op(a, im), enc_obs(oa)))
            else:
                items.append('(%s, %s)' % (enc_op(o, lambda i: iid(case, i)), enc_obs(ob)))
        tr = lst(items)
    return '{| c_p := %s; c_tr := %s |}' % (params, tr)


# --------------------------------------------------------------- generation
class Ref:
    """The generator's own bookkeeping, used only to steer the random stream
    (avoid the known-finding patterns, aim at interesting entities).  It is
    not part of any judgement."""

    def __init__(self, case):
        self.case = case
        self.att = {}            # (e, t) -> i
        self.dead = set()
        self.enabled = True
        self.auto = 1
        self.free = list(range(1, len(case['cls']) + 1))   # detached instances

    def rows(self):
        return {e for (e, _) in self.att}

    def attached(self):
        return set(self.att.values())

    def detach(self, key):
        self.att.pop(key)
        if key[0] not in self.rows():
            self.dead.discard(key[0])

    def drop(self, e):
        for k in [k for k in self.att if k[0] == e]:
            self.att.pop(k)
        self.dead.discard(e)

    def next_auto(self):
        while self.auto in self.rows():
            self.auto += 1
        v = self.auto
        self.auto += 1
        return v


def gen_case(rng, nops_max=25, focus=None):
    nk = rng.randint(2, 5)
    kinds = [rng.choice(KINDS) for _ in range(nk)]
    if not any('r' in k for k in kinds):
        kinds[rng.randrange(nk)] = rng.choice(['arp', 'ar', 'rp', 'r'])
    if all(kinds):
        kinds[rng.randrange(nk)] = ''
    ninst = rng.randint(3, 10)
    cls = [rng.randint(1, nk) for _ in range(ninst)]
    case = dict(kinds=kinds, cls=cls, ops=[], qseed=rng.randrange(1 << 30))
    # 30 %: one or two instances whose on_add / on_remove raise when the release
    # of postponed events delivers them (no clear(), no postponed probes there)
    raise_mode = rng.random() < 0.3
    if raise_mode:
        cand = [i for i in range(1, ninst + 1) if set('ar') & set(kinds[cls[i - 1] - 1])]
        if cand:
            chosen = sorted(rng.sample(cand, min(len(cand), rng.randint(1, 2))))
            # raise a marker exception / or disable dispatching again, from inside the release
            rs = [i for i in chosen if rng.random() < 0.5]
            ds = [i for i in chosen if i not in rs]
            if rs:
                case['raisers'] = rs
            if ds:
                case['disablers'] = ds
    ref = Ref(case)
    ops = case['ops']
    hot = None                      # entity with a recent deferred delete
    tok = 0
    n = rng.randint(1, nops_max)
    while len(ops) < n:
        r = rng.random()
        unattached = [i for i in range(1, ninst + 1) if i not in ref.attached()]
        target = hot if (hot is not None and rng.random() < 0.6) else rng.choice(POOL)
        if r < 0.16:                                    # create
            explicit = rng.random() < 0.5
            e = target if explicit else None
            rng.shuffle(unattached)
            comps, seen = [], set()
            for i in unattached[:rng.randint(0, 3)]:
                t = cls[i - 1]
                if t in seen or (explicit and (e, t) in ref.att):
                    continue                            # K2 is never generated
                seen.add(t)
                comps.append(i)
            ops.append(['create', e, comps])
            got = e if explicit else ref.next_auto()
            for i in comps:
                ref.att[(got, cls[i - 1])] = i
        elif r < 0.36:                                  # add (25 % replacement when possible)
            e = target
            cands = unattached
            own = [i for (ee, t), i in ref.att.items() if ee == e]
            if own and rng.random() < 0.1:
                cands = own                             # re-attach to its own slot
            elif own and rng.random() < 0.45:
                ts = {cls[i - 1] for i in own}
                cands = [i for i in unattached if cls[i - 1] in ts] or unattached
            if not cands:
                continue
            i = rng.choice(cands)
            ops.append(['add', e, i])
            ref.att[(e, cls[i - 1])] = i                # a replacement keeps the mark
        elif r < 0.48:                                  # remove
            e = target
            own = [t for (ee, t) in ref.att if ee == e]
            t = rng.choice(own) if own and rng.random() < 0.8 else rng.randint(1, nk)
            ops.append(['remove', e, t])
            if (e, t) in ref.att:
                ref.detach((e, t))
        elif r < 0.68:                                  # delete
            imm = rng.random() < 0.3
            e = target
            if rng.random() < 0.08:
                e = rng.choice(NEVER + POOL)            # error path: possibly never existed
            elif e not in ref.rows() and ref.rows() and rng.random() < 0.8:
                e = rng.choice(sorted(ref.rows()))
            ops.append(['delete', e, imm])
            if imm:
                ref.drop(e)
            else:
                ref.dead.add(e)
                hot = e
        elif r < 0.79:                                  # process
            ops.append(['process'])
            bad = [e for e in ref.dead if e not in ref.rows()]
            if bad:
                ref.dead.discard(bad[0])                # approximation, only steering
            else:
                for e in list(ref.dead):
                    ref.drop(e)
                ref.dead.clear()
            hot = None
        elif r < 0.82:                                  # clear: never while disabled (K1)
            if not ref.enabled or raise_mode:
                continue
            ops.append(['clear'])
            ref.att.clear()
            ref.dead.clear()
            ref.auto = 1
            hot = None
        elif r < 0.92:
            ref.enabled = not ref.enabled if rng.random() < 0.9 else ref.enabled
            ops.append(['enable', ref.enabled])
            if raise_mode and ref.enabled and rng.random() < 0.6:
                ops.append(['enable', True])      # delivers what an interrupted release left
        elif r < 0.98:
            # a probe while disabled only when somebody listens (else C04 leaves
            # open whether it is queued)
            listeners = [i for i in ref.attached() if 'p' in kinds[cls[i - 1] - 1]]
            if raise_mode or (not ref.enabled and not listeners):
                continue
            tok += 1
            ops.append(['probe', tok])
        else:
            ops.append(['addproc'])
    return case


def gen_case_stop(rng):
    """a release stopped (or interrupted) half-way, more notifications postponed
    afterwards, then released: the leftovers must come first"""
    nk = rng.randint(2, 3)
    kinds = [rng.choice(['ar', 'arp', 'a', 'r']) for _ in range(nk)]
    ninst = rng.randint(4, 7)
    cls = [rng.randint(1, nk) for _ in range(ninst)]
    insts = list(range(1, ninst + 1))
    rng.shuffle(insts)
    halter = next((i for i in insts if 'a' in kinds[cls[i - 1] - 1]), None)
    case = dict(kinds=kinds, cls=cls, ops=[], qseed=rng.randrange(1 << 30))
    if halter is None:
        return gen_case(rng)
    case['disablers' if rng.random() < 0.7 else 'raisers'] = [halter]
    others = [i for i in insts if i != halter]
    ents = rng.sample(POOL, 4)
    ops = [['enable', False]]
    first = [['create', ents[0], [halter]]] + [['create', ents[1], [others.pop()]]]
    if rng.random() < 0.5:
        first.insert(rng.randrange(2), ['create', ents[2], [others.pop()]])
    ops += first
    if 'disablers' in case:
        after = []
        if others and rng.random() < 0.7:
            after.append(['create', ents[3], [others.pop()]])
            ents[3] = None
        if not after or rng.random() < 0.4:
            after.append(['delete', ents[1], True])
        case['after'] = after
    ops.append(['enable', True])                      # halts at the halter's on_add
    for _ in range(rng.randint(1, 3)):                # postponed again if it was stopped
        r = rng.random()
        if r < 0.4 and others:
            ops.append(['create', ents[3], [others.pop()]])
            ents[3] = None
        elif r < 0.7:
            ops.append(['delete', ents[1], True])
        else:
            ops.append(['remove', ents[0], cls[halter - 1]])
        if ents[3] is None:
            break
    ops.append(['enable', True])
    ops.append(['enable', True])
    case['ops'] = [o for o in ops if o[1] is not None or o[0] != 'create']
    return case


def gen(rng, tier):
    n = {'quick': 600, 'thorough': 6000, 'search': 300}[tier]
    return [gen_case_stop(rng) if rng.random() < 0.08 else gen_case(rng) for _ in range(n)]


def mutate(case, rng):
    ops = case['ops']
    for _ in range(200):
        c = dict(case)
        new = list(ops)
        k = rng.randrange(len(new) + 1)
        extra = gen_case(rng, 6)['ops']
        r = rng.random()
        if r < 0.4 and extra:
            o = rng.choice(extra)
            if o[0] in ('create', 'add') or (o[0] == 'remove'):
                continue
            new.insert(k, o)
        elif r < 0.7 and len(new) > 1:
            del new[min(k, len(new) - 1)]
        elif len(new) > 1:
            i, j = rng.randrange(len(new)), rng.randrange(len(new))
            new[i], new[j] = new[j], new[i]
        c['ops'] = new
        yield c


def stats(cases, traces):
    ops, excs, kinds = {}, {}, {}
    ncb = nrel = nfailproc = 0
    for c, t in zip(cases, traces):
        for k in c['kinds']:
            kinds[k or 'plain'] = kinds.get(k or 'plain', 0) + 1
        enabled = True
        for o, ob in zip(c['ops'], t.get('obs', [])):
            name = o[0] + ('_imm' if o[0] == 'delete' and o[2] else '')
            if not enabled:
                name += '@disabled'
            ops[name] = ops.get(name, 0) + 1
            if ob['exc']:
                key = '%s:%d' % (o[0], ob['exc'])
                excs[key] = excs.get(key, 0) + 1
            ncb += len(ob['log'])
            if o[0] == 'enable':
                if o[1] and not enabled:
                    nrel += len(ob['log'])
                enabled = bool(o[1])
            if o[0] == 'clear':
                enabled = True
    return dict(operations=ops, exceptions=excs, class_kinds=kinds, callbacks=ncb,
                callbacks_delivered_at_release=nrel)


def nontrivial(case, trace):
    obs = trace.get('obs', [])
    changing = sum(1 for o in case['ops'] if o[0] in ('create', 'add', 'remove', 'delete',
                                                      'process', 'clear'))
    return changing >= 3 and sum(len(ob['log']) for ob in obs) >= 1
