"""Shared by C13 and C14: generator, implementation runner (doubles around a
real desper.SimpleLoop) and encoder of the observed logs into Coq literals of
type Desper.Loop.Model.lcase.

case = {'nps': [number of scripted processors of handle 0, 1, ...],
        'ops': [['top', h, cc, cn] | ['start', [frame, ...], 'quit' | 'other'], ...]}
frame = {'t': reading in eighths, 'pokes': [[handle, token], ...], 'pos': int,
         'org': 'proc' | 'event' | 'coro',
         'act': ['normal'] | ['quit'] | ['quitloop', 'default' | 'current'] |
                ['switch', h, cc, cn, explicit_from] | ['raisesw', h, cc, cn] | ['other'] |
                ['direct', h, cc, cn]   (the_loop.switch(h, cc, cn) called inside the frame)}
"""
from harness.core import z, b, lst

ORG = {'proc': 'OProc', 'event': 'OEvent', 'coro': 'OCoro'}


# ------------------------------------------------------------------ generator
def continues(act):
    return act[0] in ('normal', 'switch', 'raisesw', 'direct')


KINDS = ['load', 'in', 'out', 'quit']


def gen_reacts(rng, nh, curh_known=None):
    """One-shot reactions of the listeners during one operation."""
    rs = []
    if rng.random() < 0.55:
        return rs
    for _ in range(rng.choice([1, 1, 1, 2, 2, 3])):
        kind = rng.choice(['load', 'in', 'in', 'out', 'out', 'quit'])
        r = rng.random()
        if kind in ('load', 'in') and r < 0.55:
            act = rng.choice([['quit'], ['quitloop', 'default'], ['quitloop', 'current'],
                              ['other']])
        elif r < 0.3:
            act = ['quit']
        elif r < 0.45:
            act = ['quitloop', rng.choice(['default', 'current'])]
        elif r < 0.6:
            act = ['other']
        elif r < 0.8:
            # the current handle at that moment is not known statically: no clear flags,
            # so that K5 cannot arise on purpose
            act = ['switch', rng.randrange(nh), False, False, rng.random() < 0.5]
        else:
            act = ['raisesw', rng.randrange(nh), rng.random() < 0.3, rng.random() < 0.3]
        rs.append([kind, act])
    return rs


def gen_case(rng, big=False, reacts=True):
    nh = rng.choice([1, 2, 2, 3, 3, 4])
    nps = [rng.choice([1, 1, 2, 3]) for _ in range(nh)]
    ncs = [rng.choice([1, 2, 2, 3]) for _ in range(nh)]
    tok = [0]
    t = [rng.choice([0, 0, 3, 8, 100])]
    steps = [0, 0, 1, 1, 2, 3, 4, 8, 8, 13, 16, 40, 1000]

    def flags():
        return rng.random() < 0.3

    risky = [False]     # once callbacks act, the current handle is not known statically

    def rx(top=False):
        if not reacts:
            return []
        rs = gen_reacts(rng, nh)
        if rs:
            risky[0] = True
        if top:     # loop.switch from outside: nobody would honour a switch request
            rs = [r for r in rs if r[0] == 'load' and r[1][0] not in ('switch', 'raisesw')][:1]
        return rs

    h0 = rng.randrange(nh)
    ops = [['top', h0, flags(), flags(), rx(True)]]
    curh = h0
    for _ in range(rng.randint(1, 5 if big else 3)):
        if rng.random() < 0.15:
            h = rng.randrange(nh)
            ops.append(['top', h, flags(), flags(), rx(True)])
            curh = h
            continue
        start_rs = rx()
        frames = []
        n = rng.randint(0, 12 if big else 7)
        for i in range(n):
            t[0] += rng.choice(steps)
            last = i == n - 1
            r = rng.random()
            if last and r < 0.7:
                act = rng.choice([['quit'], ['quitloop', 'default'], ['quitloop', 'current'],
                                  ['other'], ['other']])
            elif r < 0.45 or (last and r < 0.8):
                act = ['normal']
            elif r < 0.8 or last:
                h = rng.randrange(nh)
                # never the recorded finding K5 on purpose: no clear_next, no
                # clear_current when switching to the current handle
                cc = flags() and h != curh and not risky[0]
                act = ['switch', h, cc, False, rng.random() < 0.5]
                curh = h
            elif r < 0.93 or last:
                h = rng.randrange(nh)
                act = ['raisesw', h, flags(), flags()]
                curh = h
            else:
                h = rng.randrange(nh)
                act = ['direct', h, flags(), flags()]
                curh = h
            pokes = []
            for _ in range(rng.choice([0, 0, 1, 1, 2])):
                tok[0] += 1
                pokes.append([rng.randrange(nh), tok[0]])
            frames.append(dict(t=t[0], pokes=pokes, pos=rng.randrange(4),
                               org=rng.choice(['proc', 'proc', 'event', 'coro']), act=act))
        ops.append(['start', frames, rng.choice(['quit', 'quit', 'other']), start_rs])
    return dict(nps=nps, ncs=ncs, ops=ops, clock=rng.choice(['float', 'float', 'int', 'hugeint', 'fraction']))


def gen(rng, tier):
    n = {'quick': 420, 'thorough': 4200, 'search': 300}[tier]
    return [gen_case(rng, big=(i % 4 == 3)) for i in range(n)]


def shrink(case):
    ops = case['ops']
    for i in range(len(ops) - 1, 0, -1):              # drop an operation (not the first)
        yield dict(case, ops=ops[:i] + ops[i + 1:])
    for i, o in enumerate(ops):
        if o[0] != 'start':
            if o[2] or o[3]:
                yield dict(case, ops=ops[:i] + [['top', o[1], False, False]] + ops[i + 1:])
            continue
        fs = o[1]
        for k in range(len(fs)):                      # cut the frames after k, drop frame k
            yield dict(case, ops=ops[:i] + [['start', fs[:k], o[2]]] + ops[i + 1:])
        for k in range(len(fs)):
            yield dict(case, ops=ops[:i] + [['start', fs[:k] + fs[k + 1:], o[2]]] + ops[i + 1:])
        for k, f in enumerate(fs):                    # simplify a frame
            simpler = []
            if f['pokes']:
                simpler.append(dict(f, pokes=[]))
                for j in range(len(f['pokes'])):
                    simpler.append(dict(f, pokes=f['pokes'][:j] + f['pokes'][j + 1:]))
            if f['org'] != 'proc':
                simpler.append(dict(f, org='proc'))
            if f['pos'] != 0:
                simpler.append(dict(f, pos=0))
            if f['act'][0] in ('switch', 'raisesw', 'direct') and (f['act'][2] or f['act'][3]):
                simpler.append(dict(f, act=f['act'][:2] + [False, False] + f['act'][4:]))
            if f['act'][0] != 'normal' and k < len(fs) - 1:
                simpler.append(dict(f, act=['normal']))
            for g in simpler:
                yield dict(case, ops=ops[:i] + [['start', fs[:k] + [g] + fs[k + 1:], o[2]]]
                           + ops[i + 1:])
    if any(n > 1 for n in case['nps']):
        yield dict(case, nps=[1 for _ in case['nps']])
    if any(n > 1 for n in case.get('ncs') or []):
        yield dict(case, ncs=[1 for _ in case['nps']])


def mutate(case, rng):
    for _ in range(200):
        c = gen_case(rng)
        yield c


# --------------------------------------------------------- the implementation
# the Python type of the readings of the time function; scale = what one unit of the
# model's clock (an integer reading t) is worth: reading = base + t / scale
CLOCKS = {'float': 8, 'int': 1, 'hugeint': 1, 'fraction': 3}


def reading(kind, t):
    from fractions import Fraction
    if kind == 'int':
        return t
    if kind == 'hugeint':
        return 2 ** 60 + t
    if kind == 'fraction':
        return Fraction(t, 3)
    return t / 8.0


def run(case):
    import desper
    from fractions import Fraction
    clock = case.get('clock', 'float')
    scale = CLOCKS[clock]

    class Boom(Exception):
        pass

    class St:
        pass
    st = St()
    st.serial = 0
    st.frames = []
    st.cur = None
    st.end = 'quit'
    st.log = []
    st.fallbacks = 0
    st.reacts = []          # [[event kind, action], ...] one-shot reactions of the listeners
    st.inh = False          # a load-time / switch-in callback has run since the last clock
                            # reading: the loop is carrying out a switch
    loop = None

    def wid(world):
        return -1 if world is None else getattr(world, 'verif_wid', -2)

    def hid(handle):
        return -1 if handle is None else getattr(handle, 'idx', -2)

    def perform(frame, world):
        act = frame['act']
        st.log.append(['act', frame['org'], act, wid(loop.current_world),
                       hid(loop.current_world_handle), frame.get('kind'), st.inh])
        kind = act[0]
        if kind == 'quit':
            raise desper.Quit()
        if kind == 'quitloop':
            if act[1] == 'default':
                desper.quit_loop()
            else:
                desper.quit_loop(world)
        elif kind == 'switch':
            h = handles[act[1]]
            if act[4]:
                desper.switch(h, act[2], act[3], from_world=world)
            else:
                desper.switch(h, clear_current=act[2], clear_next=act[3])
        elif kind == 'raisesw':
            raise desper.SwitchWorld(handles[act[1]], clear_current=act[2], clear_next=act[3])
        elif kind == 'other':
            raise Boom()
        elif kind == 'direct':
            loop.switch(handles[act[1]], act[2], act[3])
            return
        raise AssertionError('the action did not raise')

    def react(kind, world):
        # the first pending reaction to this kind of event is consumed and performed
        for i, (k, act) in enumerate(st.reacts):
            if k == kind:
                del st.reacts[i]
                perform(dict(org='callback', act=act, kind=kind), world)
                return

    @desper.event_handler('on_world_load', 'on_switch_in', 'on_switch_out', 'on_quit',
                          'on_poke', 'on_probe')
    class Listener:
        def __init__(self, world):
            self.world = world

        def on_world_load(self, handle, world):
            st.log.append(['ev', wid(self.world), 'load', hid(handle), wid(world)])
            st.inh = True
            react('load', self.world)

        def on_switch_in(self, from_world, to_world):
            st.log.append(['ev', wid(self.world), 'in', wid(from_world), wid(to_world)])
            st.inh = True
            react('in', self.world)

        def on_switch_out(self, from_world, to_world):
            st.log.append(['ev', wid(self.world), 'out', wid(from_world), wid(to_world)])
            react('out', self.world)

        def on_quit(self):
            st.log.append(['ev', wid(self.world), 'quit'])
            react('quit', self.world)

        def on_poke(self, tok):
            st.log.append(['ev', wid(self.world), 'poke', tok])

        def on_probe(self, frame):
            perform(frame, self.world)

    class ScriptProc(desper.Processor):
        def __init__(self, idx):
            self.idx = idx

        def process(self, dt):
            w = self.world
            # the value of dt, exactly (its Python type is not part of the property)
            try:
                d8 = Fraction(dt) * scale
            except (TypeError, ValueError):
                d8 = None
            st.log.append(['proc', wid(w), self.idx,
                           int(d8) if d8 is not None and d8.denominator == 1 else repr(dt)])
            f = st.cur
            if f['org'] == 'coro' or self.idx != f['pos'] % w.verif_np:
                return
            act_here(f, w)

    def act_here(f, w):
        # the acting processor / coroutine: pokes, then the scripted action
        for k, tok in f['pokes']:
            hk = handles[k]
            if hk.cached:
                tw = hk()
                st.log.append(['poke', k, tok, wid(tw)])
                tw.dispatch('on_poke', tok)
        if f['act'][0] == 'normal':
            return
        if f['org'] == 'event':
            w.dispatch('on_probe', f)
        else:
            perform(f, w)

    def coroutine_body(cidx, world):
        while True:
            st.log.append(['coro', wid(world), cidx])
            f = st.cur
            if f['org'] == 'coro' and cidx == f['pos'] % world.verif_nc:
                try:
                    act_here(f, world)
                except BaseException:
                    world.verif_coro_dead = True       # the exception ends this coroutine
                    raise
            yield

    def start_coroutines(world):
        cp = world.get_processor(desper.CoroutineProcessor)
        for c in range(world.verif_nc):
            cp.start(coroutine_body(c, world))

    proc_classes = [type('ScriptProc%d' % i, (ScriptProc,), {}) for i in range(8)]

    def populate(handle, world):
        st.serial += 1
        world.verif_wid = st.serial
        world.verif_np = handle.np
        world.verif_nc = handle.nc
        world.verif_coro_dead = False
        st.log.append(['load', handle.idx, st.serial])
        for i in range(handle.np):
            world.add_processor(proc_classes[i](i), priority=2 * i)
        world.add_processor(desper.CoroutineProcessor(), priority=2 * handle.np)
        start_coroutines(world)
        world.create_entity(Listener(world))

    class H(desper.WorldHandle):
        def __init__(self, idx, np_, nc):
            super().__init__()
            self.idx = idx
            self.np = np_
            self.nc = nc
            self.transform_functions.append(populate)

    ncs = case.get('ncs') or [1] * len(case['nps'])
    handles = [H(i, n, ncs[i]) for i, n in enumerate(case['nps'])]

    def timefn():
        cw = loop.current_world
        if cw is not None and getattr(cw, 'verif_coro_dead', False):
            # a coroutine of this world ended by an exception: between frames, give the
            # world a new CoroutineProcessor and start its coroutines afresh, in order
            cw.add_processor(desper.CoroutineProcessor(), priority=2 * cw.verif_np)
            cw.verif_coro_dead = False
            start_coroutines(cw)
        w, h = wid(cw), hid(loop.current_world_handle)
        st.inh = False
        if st.frames:
            st.cur = st.frames.pop(0)
            st.log.append(['clock', st.cur['t'], w, h])
            return reading(clock, st.cur['t'])
        st.log.append(['clockend', st.end, w, h])
        if st.end == 'quit':
            raise desper.Quit()
        raise Boom()

    loop = desper.SimpleLoop(timefn)
    saved = desper.default_loop
    desper.default_loop = loop
    logs = []
    try:
        for o in case['ops']:
            st.log = []
            st.inh = False
            if o[0] == 'top':
                st.reacts = [list(x) for x in (o[4] if len(o) > 4 else [])]
                try:
                    loop.switch(handles[o[1]], o[2], o[3])
                    out = ['returned']
                except desper.Quit:
                    out = ['quit']
                except Boom:
                    out = ['other']
                except desper.SwitchWorld:
                    out = ['switch']
                except Exception as ex:
                    out = ['exc', type(ex).__name__, str(ex)[:200]]
                if out == ['returned']:
                    st.log.append(['topdone', wid(loop.current_world),
                                   hid(loop.current_world_handle)])
                else:
                    st.log.append(['topexc', out, wid(loop.current_world),
                                   hid(loop.current_world_handle)])
            else:
                st.frames = list(o[1])
                st.end = o[2]
                st.cur = None
                st.reacts = [list(x) for x in (o[3] if len(o) > 3 else [])]
                try:
                    loop.start()
                    out = ['returned', bool(loop.running)]
                except Boom:
                    out = ['other']
                except desper.SwitchWorld:
                    out = ['switch']
                except Exception as ex:
                    out = ['exc', type(ex).__name__, str(ex)[:200]]
                st.log.append(['end', out, wid(loop.current_world),
                               hid(loop.current_world_handle)])
            logs.append(st.log)
    finally:
        desper.default_loop = saved
    return {'logs': logs}


# -------------------------------------------------------------------- encoder
def nat(n):
    return '%d%%nat' % int(n)


def enc_action(a):
    k = a[0]
    if k == 'normal':
        return 'ANormal'
    if k == 'quit':
        return 'AQuit'
    if k == 'quitloop':
        return '(AQuitLoop %s)' % ('QDefault' if a[1] == 'default' else 'QCurrent')
    if k == 'switch':
        return '(ASwitch %s %s %s %s)' % (z(a[1]), b(a[2]), b(a[3]), b(a[4]))
    if k == 'raisesw':
        return '(ARaiseSW %s %s %s)' % (z(a[1]), b(a[2]), b(a[3]))
    if k == 'other':
        return 'AOther'
    if k == 'direct':
        return '(ADirect %s %s %s)' % (z(a[1]), b(a[2]), b(a[3]))
    raise ValueError(a)


def enc_frame(f):
    return ('{| f_t := %s; f_pokes := %s; f_pos := %s; f_org := %s; f_act := %s |}' % (
        z(f['t']), lst(['(%s, %s)' % (z(k), z(t)) for k, t in f['pokes']]), nat(f['pos']),
        ORG[f['org']], enc_action(f['act'])))


def enc_op(o):
    if o[0] == 'top':
        return '(OTop %s %s %s)' % (z(o[1]), b(o[2]), b(o[3]))
    return '(OStart %s %s)' % (lst([enc_frame(f) for f in o[1]]),
                               'EndQuit' if o[2] == 'quit' else 'EndOther')


BAD = 'ETopDone (-7) (-7)'      # an entry no model run produces


def enc_entry(e):
    k = e[0]
    if k == 'clock':
        return 'EClock %s %s %s' % (z(e[1]), z(e[2]), z(e[3]))
    if k == 'clockend':
        return 'EClockEnd %s %s %s' % ('EndQuit' if e[1] == 'quit' else 'EndOther',
                                       z(e[2]), z(e[3]))
    if k == 'proc':
        if not isinstance(e[3], int):
            return BAD
        return 'EProc %s %s %s' % (z(e[1]), nat(e[2]), z(e[3]))
    if k == 'poke':
        return 'EPoke %s %s %s' % (z(e[1]), z(e[2]), z(e[3]))
    if k == 'coro':
        return 'ECoro %s %s' % (z(e[1]), nat(e[2]))
    if k == 'act':
        return 'EAct %s %s' % (ORG[e[1]], enc_action(e[2]))
    if k == 'load':
        return 'ELoad %s %s' % (z(e[1]), z(e[2]))
    if k == 'ev':
        w, n = e[1], e[2]
        if n == 'load':
            ev = '(VLoad %s %s)' % (z(e[3]), z(e[4]))
        elif n == 'in':
            ev = '(VIn %s %s)' % (z(e[3]), z(e[4]))
        elif n == 'out':
            ev = '(VOut %s %s)' % (z(e[3]), z(e[4]))
        elif n == 'quit':
            ev = 'VQuit'
        else:
            ev = '(VPoke %s)' % z(e[3])
        return 'EEv %s %s' % (z(w), ev)
    if k == 'end':
        out = e[1]
        if out[0] == 'returned':
            o = '(Returned %s)' % b(out[1])
        elif out[0] == 'other':
            o = 'RaisedOther'
        elif out[0] == 'switch':
            o = 'RaisedSwitch'
        else:
            return BAD
        return 'EEnd %s %s %s' % (o, z(e[2]), z(e[3]))
    if k == 'topdone':
        return 'ETopDone %s %s' % (z(e[1]), z(e[2]))
    return BAD


KIND = {'load': 'KLoad', 'in': 'KIn', 'out': 'KOut', 'quit': 'KQuit'}


def enc_reacts(rs):
    return lst(['(%s, %s)' % (KIND[k], enc_action(a)) for k, a in rs])


def enc_op_r(o):
    if o[0] == 'top':
        return '(OTop %s %s %s %s)' % (z(o[1]), b(o[2]), b(o[3]),
                                       enc_reacts(o[4] if len(o) > 4 else []))
    return '(OStart %s %s %s)' % (lst([enc_frame(f) for f in o[1]]),
                                  'EndQuit' if o[2] == 'quit' else 'EndOther',
                                  enc_reacts(o[3] if len(o) > 3 else []))


def enc_entry_r(e):
    k = e[0]
    if k == 'act':
        if e[1] == 'callback':
            org = '(OCallback %s %s)' % (KIND[e[5]], b(e[6]))
        else:
            org = ORG[e[1]]
        return 'EAct %s %s %s %s' % (org, enc_action(e[2]), z(e[3]), z(e[4]))
    if k == 'topexc':
        x = {'quit': 'TQuit', 'other': 'TOther', 'switch': 'TSwitch'}.get(e[1][0])
        if x is None:
            return BAD
        return 'ETopExc %s %s %s' % (x, z(e[2]), z(e[3]))
    return enc_entry(e)


def encode_r(case, trace):
    logs = trace.get('logs') if isinstance(trace, dict) else None
    items = []
    for i, o in enumerate(case['ops']):
        if logs is None or i >= len(logs):
            log = [BAD]
        else:
            log = [enc_entry_r(e) for e in logs[i]]
        items.append('(%s, %s)' % (enc_op_r(o), lst(log)))
    ncs = case.get('ncs') or [1] * len(case['nps'])
    return '{| c_nps := %s; c_ncs := %s; c_ops := %s |}' % (
        lst([nat(n) for n in case['nps']]), lst([nat(n) for n in ncs]), lst(items))


def encode(case, trace):
    logs = trace.get('logs') if isinstance(trace, dict) else None
    items = []
    for i, o in enumerate(case['ops']):
        if logs is None or i >= len(logs):      # hang / crash: nothing the model produces
            log = [BAD]
        else:
            log = [enc_entry(e) for e in logs[i]]
        items.append('(%s, %s)' % (enc_op(o), lst(log)))
    return '{| c_nps := %s; c_ops := %s |}' % (lst([nat(n) for n in case['nps']]), lst(items))


# ---------------------------------------------------------------------- stats
def acts(case):
    for o in case['ops']:
        if o[0] == 'start':
            for f in o[1]:
                yield f


def nontrivial(case, trace):
    fs = list(acts(case))
    sw = sum(1 for f in fs if f['act'][0] in ('switch', 'raisesw'))
    return len(fs) >= 3 and sw >= 1


def stats(cases, traces):
    d = {}

    def inc(k):
        d[k] = d.get(k, 0) + 1
    for c in cases:
        inc('clock.' + c.get('clock', 'float'))
        nstarts = 0
        for o in c['ops']:
            if o[0] == 'top':
                inc('op.top')
                continue
            nstarts += 1
            inc('op.start')
            inc('start.end_by_clock_' + o[2] if all(continues(f['act']) for f in o[1])
                else 'start.end_by_frame')
            for f in o[1]:
                a = f['act']
                inc('act.' + a[0])
                inc('origin.' + f['org'])
                if a[0] in ('switch', 'raisesw', 'direct'):
                    inc('%s.cc=%d,cn=%d' % (a[0], a[2], a[3]))
                if f['pokes']:
                    inc('frames_with_pokes')
        inc('starts_per_case.%d' % nstarts)
    for t in traces:
        prev_end = None
        for log in (t.get('logs') or []) if isinstance(t, dict) else []:
            if log and log[0][0] in ('clock', 'clockend') and prev_end is not None:
                inc('restart.after_' + prev_end)
            for i, e in enumerate(log):
                nxt = log[i + 1] if i + 1 < len(log) else None
                if e[0] == 'ev':
                    inc('delivered.' + e[2])
                elif e[0] == 'load':
                    inc('loads')
                elif e[0] == 'poke':
                    inc('poke.delivered_at_once' if nxt and nxt[0] == 'ev' and nxt[2] == 'poke'
                        and nxt[3] == e[2] else 'poke.held_by_muted_world')
                elif e[0] == 'act' and e[2][0] in ('switch', 'raisesw'):
                    inc(e[2][0] + ('.target_not_cached' if nxt and nxt[0] == 'load'
                                   else '.target_cached'))
                elif e[0] == 'end':
                    prev_end = e[1][0]
    return d
