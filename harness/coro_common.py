"""Shared by C08 / C09: case generator, implementation runner and Coq encoder
for desper.logic.coroutines.CoroutineProcessor.

A case is
  {'scripts': [[gid, [[ [[kind, target], ...], ['yield', None | eighths] | ['return', None | int] ], ...]], ...],
   'ops': [['start', g] | ['kill', g] | ['state', g] | ['value', g] | ['process', eighths], ...]}
Times are integers in eighths of a unit; the implementation is fed the same
dyadic value as a float, an int, a fractions.Fraction or a bool (optional
third element of a yield / process entry: 'f', 'i', 'q', 'b'), so that every
operation is exact in every type.  (decimal.Decimal is not fed: the real
process() raises TypeError on Decimal + float.)  gid >= 0 names a generator
object built from its script, gid < 0 a non-generator.
Optional keys of a case: 'pre' [[gid, [v, ...]]] values the generator yields
when it is advanced outside the processor before anything else; 'world'
[before, after] the processor is added to a World between that many other
processors and driven through world.process; 'promise' kill / state go through
the CoroutinePromise when one exists; 'deco' top-level starts go through a
@desper.coroutine function with an explicit world= argument.
"""
from harness.core import z, lst, opt

WAITS = [None, None, 0, -8, 1, 2, 4, 8, 8, 12, 16, 24, 32]
DTS = [0, 1, 4, 8, 8, 16, 24]
NONGEN = list(range(-12, 0))     # names of the non-generator objects, see run()


def tags_for(v):
    """Python types in which the dyadic value v / 8 can be fed exactly."""
    t = ['f', 'q', 'q']
    if v % 8 == 0:
        t += ['i', 'i']
    if v in (0, 8):
        t.append('b')
    return t


def num(v, tag='f'):
    import fractions
    if tag == 'i' and v % 8 == 0:
        return v // 8
    if tag == 'b' and v in (0, 8):
        return v == 8
    if tag == 'q':
        return fractions.Fraction(v, 8)
    return v / 8.0


# ------------------------------------------------------------------ generation
def gen_case(rng, kills, nested, nframes=None, raises=0.25):
    """kills: weight of kill/start/state traffic (0..1); nested: probability
    that a body step carries in-body actions; raises: probability that a
    finite script ends by raising (SwitchWorld, Quit, an Exception, a
    BaseException) instead of returning."""
    n = rng.randint(1, 5)
    nframes = nframes or rng.randint(5, 20)
    # 'long' generators cannot finish within the trace (more steps than
    # frames), so they may be restarted at any time; a 'mid' one (4-8 steps)
    # is restarted only between frames and only as long as it cannot have
    # finished yet; a 'short' one finishes, and start(short) occurs at most
    # once in the whole case (restarting an exhausted generator is outside
    # the domain, see Spec.wf_b)
    kind = {}
    for g in range(n):
        r = rng.random()
        kind[g] = 'long' if r < 0.45 else ('mid' if r < 0.65 and kills > 0 else 'short')
    longs = [g for g in range(n) if kind[g] == 'long']
    mids = {g: rng.randint(4, 8) for g in range(n) if kind[g] == 'mid'}
    shorts = [g for g in range(n) if kind[g] == 'short']
    started_once = set()

    def target(for_start, frame=None):
        if rng.random() < 0.07 and kills > 0:
            return rng.choice(NONGEN)
        if for_start:
            cands = longs + [g for g in shorts if g not in started_once]
            if frame is not None:
                cands += [g for g, ln in mids.items() if frame < ln] * 2
            if not cands:
                return None
            g = rng.choice(cands)
            if g in shorts:
                started_once.add(g)
            return g
        return rng.randrange(n)

    def action(me):
        r = rng.random()
        if r < 0.4:
            g = target(True)
            return ['start', g] if g is not None else ['state', me]
        if r < 0.8:
            g = target(False)
            if rng.random() < 0.25:
                g = me
            return ['kill', g]
        return ['state', target(False)]

    ops = []
    # initial starts at frames 0..3
    start_frame = {g: rng.randint(0, 3) for g in range(n)}
    for g in shorts:
        if kills > 0 and rng.random() < 0.3:
            start_frame[g] = 99     # its single start is left to a body / the traffic
        else:
            started_once.add(g)
    for g in longs:
        if kills > 0 and rng.random() < 0.2:
            start_frame[g] = 99
    tight = rng.random() < 0.5      # small dt / wait alphabet: sums hit deadlines exactly
    mixed = rng.random() < 0.65     # number types other than float
    waits = [None, 0, 4, 8, 8, 16] if tight else WAITS
    dts = [0, 4, 8, 8] if tight else DTS
    scripts = []
    for g in range(n):
        nsteps = (nframes + 2) if g in longs else (mids[g] if g in mids else rng.randint(1, 6))
        steps = []
        for k in range(nsteps):
            acts = []
            if rng.random() < nested:
                for _ in range(rng.randint(1, 3)):
                    a = action(g)
                    acts.append(a)
                    if a[0] == 'kill' and rng.random() < 0.5 and (
                            a[1] in longs):
                        acts.append(['start', a[1]])      # kill + start at once
            last = (k == nsteps - 1)
            if last and rng.random() < raises:
                res = ['raise', rng.randrange(4)]       # an exception leaves the body
            elif last:
                res = ['return', rng.choice([None, 0, 7, -3, g])]
            else:
                w = rng.choice(waits)
                res = ['yield', w]
                if mixed and w is not None:
                    res.append(rng.choice(tags_for(w)))
            steps.append([acts, res])
        scripts.append([g, steps])
    frame = 0
    while frame < nframes:
        for g in range(n):
            if start_frame[g] == frame:
                ops.append(['start', g])
        # traffic between frames
        while rng.random() < kills:
            r = rng.random()
            if r < 0.25:
                g = target(False)
                ops.append(['kill', g])
                if (g in longs or (g in mids and frame < mids[g])) and rng.random() < 0.7:
                    if rng.random() < 0.3:
                        ops.append(['state', g])
                    ops.append(['start', g])
            elif r < 0.45:
                g = target(True, frame)
                if g is not None:
                    ops.append(['start', g])
            elif r < 0.6:
                ops.append(['kill', target(False)])
            elif r < 0.85:
                ops.append(['state', target(False)])
            else:
                ops.append(['value', rng.randrange(n)])
        dt = rng.choice(dts)
        ops.append(['process', dt, rng.choice(tags_for(dt))] if mixed else ['process', dt])
        frame += 1
    for g in range(n):
        if rng.random() < 0.5:
            ops.append(['value', g])
        if rng.random() < 0.3:
            ops.append(['state', g])
    case = dict(scripts=scripts, ops=ops)
    # less travelled surface
    pre = []
    for g in range(n):
        if rng.random() < 0.12:     # generator that already ran partly outside the processor
            pre.append([g, [rng.choice([None, 0, 8, 4]) for _ in range(rng.randint(1, 2))]])
    if pre:
        case['pre'] = pre
    if rng.random() < 0.4:
        case['world'] = [rng.randint(0, 2), rng.randint(0, 2)]
        if rng.random() < 0.5:
            case['deco'] = True
    if rng.random() < 0.4:
        case['promise'] = True
    return case


def gen_many(rng):
    """Many concurrent waiters: 6-10 coroutines all started before the first
    frame, whose deadlines are pushed in non-sorted order (ascending runs, a
    small value after a big one, duplicates, long tails), then enough small
    frames to see every wake-up in its exact frame; after waking they wait
    again, so pushes and pops of the wait heap interleave."""
    n = rng.randint(6, 10)
    u = rng.choice([8, 8, 4, 2])            # granularity of waits and frames, in eighths
    firsts, top = [], 0
    for _ in range(n):
        r = rng.random()
        if not firsts or r < 0.45:
            top = top + rng.randint(1, 4)   # ascending run / long tail
            firsts.append(top)
        elif r < 0.85:
            firsts.append(rng.randint(1, max(1, top - 1)))   # small after big
        else:
            firsts.append(rng.choice(firsts))                # duplicate
    if rng.random() < 0.3:
        rng.shuffle(firsts)
    mixed = rng.random() < 0.5
    scripts = []
    for g in range(n):
        steps = []
        ws = [firsts[g]] + [rng.choice([None, 1, 1, 2, 3, 5, rng.randint(1, top + 1)])
                            for _ in range(rng.randint(0, 3))]
        for w in ws:
            res = ['yield', None if w is None else w * u]
            if mixed and w is not None:
                res.append(rng.choice(tags_for(w * u)))
            steps.append([[], res])
        steps.append([[], ['return', rng.choice([None, g])]])
        scripts.append([g, steps])
    ops = [['start', g] for g in range(n)]
    if rng.random() < 0.3:
        rng.shuffle(ops)
    nframes = min(30, top + rng.randint(4, 10))
    for _ in range(nframes):
        r = rng.random()
        dt = u if r < 0.8 else (0 if r < 0.88 else (2 * u if r < 0.95 else u // 2))
        ops.append(['process', dt, rng.choice(tags_for(dt))] if mixed else ['process', dt])
    return dict(scripts=scripts, ops=ops, many=True)


# ----------------------------------------------------------- implementation
class _Boom(Exception):
    pass


class _Stop(BaseException):
    pass


def _exc(k):
    import desper
    return [_Boom('boom'), desper.SwitchWorld(None), desper.Quit(), _Stop()][k % 4]


def _name(ex):
    import desper
    for k, cls in enumerate([_Boom, desper.SwitchWorld, desper.Quit, _Stop]):
        if type(ex) is cls:
            return 'raised:%d' % k
    n = type(ex).__name__
    return n if n in ('ValueError', 'TypeError', 'KeyError') else 'other:' + n


def run(case):
    import gc
    import weakref
    import desper
    from desper.logic.coroutines import CoroutineProcessor

    proc = CoroutineProcessor()
    table = {}          # gid -> generator object
    latest = {}         # gid -> promise of the last successful start
    cur = []            # execution log of the running frame
    via_promise = bool(case.get('promise'))
    pre = {g: vals for g, vals in case.get('pre', [])}

    world = None
    if case.get('world') is not None:
        world = desper.World()
        before, after = case['world']
        for i in range(before):
            world.add_processor(type('Before%d' % i, (desper.Processor,),
                                     {'process': lambda self, dt: None})(), -1 - i)
        world.add_processor(proc, 0)
        for i in range(after):
            world.add_processor(type('After%d' % i, (desper.Processor,),
                                     {'process': lambda self, dt: None})(), 1 + i)

    @desper.coroutine
    def launch(obj, world=None):        # the generator "function" hands out a prepared object
        return obj

    def nongen_fn():
        yield

    class HandIterator:                 # an iterator that is not a generator
        def __iter__(self):
            return self

        def __next__(self):
            return None

    async def async_fn():
        return None

    async_obj = async_fn()
    nongen = {-1: 42, -2: nongen_fn, -3: None, -4: 'generator', -5: [1, 2], -6: iter([1, 2]),
              -7: range(3), -8: HandIterator(), -9: map(abs, [1, -2]), -10: zip([1], [2]),
              -11: async_obj, -12: (lambda: None)}

    def obj(g):
        return table[g] if g >= 0 else nongen.get(g, 3.5)

    def do(kind, g, top=False):
        try:
            if kind == 'start':
                if top and world is not None and case.get('deco'):
                    pr = launch(obj(g), world=world)
                else:
                    pr = proc.start(obj(g))
                if g >= 0:
                    latest[g] = pr
                return 'ok'
            if kind == 'kill':
                if via_promise and g in latest:
                    latest[g].kill()
                else:
                    proc.kill(obj(g))
                return 'ok'
            if kind == 'state':
                if via_promise and g in latest:
                    return int(latest[g].state)
                return int(proc.state(obj(g)))
        except Exception as ex:
            return _name(ex)

    def make(g, steps):
        def body():
            for v in pre.get(g, ()):            # resumptions outside the processor
                yield (None if v is None else num(v))
            for k, (acts, res) in enumerate(steps):
                outs = []
                cur.append([g, k, outs])        # logged before anything is done
                for kind, tg in acts:
                    outs.append(do(kind, tg))
                if res[0] == 'return':
                    return res[1]
                if res[0] == 'raise':
                    raise _exc(res[1])
                yield (None if res[1] is None else num(res[1], *res[2:3]))
        return body()

    for g, steps in case['scripts']:
        table[g] = make(g, steps)
        for _ in pre.get(g, ()):
            next(table[g])
    refs = [(g, weakref.ref(gen)) for g, gen in table.items()]

    obs = []
    for o in case['ops']:
        kind = o[0]
        if kind == 'process':
            cur = []
            exc = 'ok'
            dt = num(o[1], *o[2:3])
            try:
                if world is not None:
                    world.process(dt)
                else:
                    proc.process(dt)
            except (Exception, _Stop) as ex:
                exc = _name(ex)
            obs.append([cur, exc])
        elif kind == 'value':
            pr = latest.get(o[1])
            v = None if pr is None else pr.value
            if v is not None and not (isinstance(v, int) and not isinstance(v, bool)):
                v = 'other'
            obs.append(v)
        else:
            obs.append(do(kind, o[1], top=True))
    async_obj.close()
    # release: drop every reference of the harness, see who survives
    # (the processor stays referenced from `proc` / the world)
    table.clear()
    latest.clear()
    pr = None
    gc.collect()
    alive = [g for g, w in refs if w() is not None]
    return {'obs': obs, 'alive': alive}


# ------------------------------------------------------------------ encoding
def enc_outcome(o):
    if o == 'ok':
        return 'OOk'
    if isinstance(o, int) and not isinstance(o, bool):
        return '(OState %s)' % z(o)
    if o in ('ValueError', 'TypeError', 'KeyError'):
        return 'O' + o
    if isinstance(o, str) and o.startswith('raised:'):
        return '(ORaised %s)' % z(int(o[7:]))
    return 'OOther'


def enc_optz(v):
    return opt(None if v is None else z(v))


def enc_action(a):
    return '(%s %s)' % ({'start': 'AStart', 'kill': 'AKill', 'state': 'AState'}[a[0]], z(a[1]))


def enc_scripts(scripts):
    out = []
    for g, steps in scripts:
        ss = []
        for acts, res in steps:
            if res[0] == 'return':
                r = '(RReturn %s)' % enc_optz(res[1])
            elif res[0] == 'raise':
                r = '(RRaise %s)' % z(res[1])
            elif res[1] is None:
                r = '(RYield YNone)'
            else:
                r = '(RYield (YNum %s))' % z(res[1])
            ss.append('(%s, %s)' % (lst([enc_action(a) for a in acts]), r))
        out.append('(%s, %s)' % (z(g), lst(ss)))
    return lst(out)


REJECTED = 'mkCase [] [(Process 0, ObsP [(0, 0, [])] OOther)] []'


def encode(case, trace):
    if 'obs' not in trace:              # hang / crash: a trace no model accepts
        return REJECTED
    items = []
    for o, ob in zip(case['ops'], trace['obs']):
        kind = o[0]
        if kind == 'process':
            log = lst(['(%s, %s, %s)' % (z(e[0]), z(e[1]), lst([enc_outcome(x) for x in e[2]]))
                       for e in ob[0]])
            items.append('(Process %s, ObsP %s %s)' % (z(o[1]), log, enc_outcome(ob[1])))
        elif kind == 'value':
            if ob == 'other':
                items.append('(Value %s, ObsR OOther)' % z(o[1]))
            else:
                items.append('(Value %s, ObsV %s)' % (z(o[1]), enc_optz(ob)))
        else:
            items.append('(%s %s, ObsR %s)' % (kind.capitalize(), z(o[1]), enc_outcome(ob)))
    return 'mkCase %s %s %s' % (enc_scripts(case['scripts']), lst(items),
                                lst([z(g) for g in trace['alive']]))


# --------------------------------------------------------------- statistics
def wake_stats(case, trace):
    """From the log alone: for each positive wait, did the accumulated dt hit
    the deadline exactly or overshoot it when the coroutine ran again?"""
    res = dict(waits=0, exact=0, over=0, same_frame_wakes=0)
    if 'obs' not in trace:
        return res
    steps = {g: s for g, s in case['scripts']}
    pending = {}        # gid -> [wait, accumulated]
    for o, ob in zip(case['ops'], trace['obs']):
        if o[0] == 'kill' and ob == 'ok':
            pending.pop(o[1], None)
        if o[0] != 'process':
            continue
        for p in pending.values():
            p[1] += o[1]
        woke = 0
        for g, k, outs in ob[0]:
            if g in pending:
                w, acc = pending.pop(g)
                res['waits'] += 1
                woke += 1
                if acc == w:
                    res['exact'] += 1
                elif acc > w:
                    res['over'] += 1
            for (kind, tg), out in zip(steps[g][k][0], outs):
                if kind == 'kill' and out == 'ok':
                    pending.pop(tg, None)
            r = steps[g][k][1]
            if r[0] == 'yield' and r[1] is not None and r[1] > 0 and g not in [
                    tg for (kind, tg), out in zip(steps[g][k][0], outs)
                    if kind == 'kill' and out == 'ok' and tg == g]:
                pending[g] = [r[1], 0]
        if woke >= 2:
            res['same_frame_wakes'] += 1
    return res


def stats(cases, traces):
    tot = dict(cases=len(cases), ops={}, outcomes={}, number_types={}, extras={},
               in_body_actions=0, body_steps=0,
               waits=0, exact=0, over=0, same_frame_wakes=0, process_exceptions=0,
               alive_at_end=0, kill_then_start=0, hangs=0)
    for c, t in zip(cases, traces):
        if 'obs' not in t:
            tot['hangs'] += 1
            continue
        prev = None
        for key in ('pre', 'world', 'deco', 'promise', 'many'):
            if key in c:
                tot['extras'][key] = tot['extras'].get(key, 0) + 1
        for _, steps in c['scripts']:
            for _, res in steps:
                if res[0] == 'yield' and res[1] is not None:
                    tg = 'yield:' + (res[2] if len(res) > 2 else 'f')
                    tot['number_types'][tg] = tot['number_types'].get(tg, 0) + 1
        for o, ob in zip(c['ops'], t['obs']):
            tot['ops'][o[0]] = tot['ops'].get(o[0], 0) + 1
            if o[0] == 'process':
                tg = 'dt:' + (o[2] if len(o) > 2 else 'f')
                tot['number_types'][tg] = tot['number_types'].get(tg, 0) + 1
            if o[0] in ('start', 'kill', 'state'):
                key = '%s:%s' % (o[0], ob)
                tot['outcomes'][key] = tot['outcomes'].get(key, 0) + 1
                if o[0] == 'start' and ob == 'ok' and prev == ('kill', o[1], 'ok'):
                    tot['kill_then_start'] += 1
                prev = (o[0], o[1], ob)
            else:
                prev = None
            if o[0] == 'process':
                if ob[1] != 'ok':
                    tot['process_exceptions'] += 1
                    tot['outcomes']['process:' + ob[1]] = tot['outcomes'].get('process:' + ob[1], 0) + 1
                steps = {g: s for g, s in c['scripts']}
                for g, k, outs in ob[0]:
                    tot['body_steps'] += 1
                    tot['in_body_actions'] += len(outs)
                    for (kind, tg), out in zip(steps[g][k][0], outs):
                        key = 'body-%s:%s' % (kind, out)
                        tot['outcomes'][key] = tot['outcomes'].get(key, 0) + 1
        tot['alive_at_end'] += len(t['alive'])
        ws = wake_stats(c, t)
        for k2 in ('waits', 'exact', 'over', 'same_frame_wakes'):
            tot[k2] += ws[k2]
    return tot


# ------------------------------------------------------------------ shrinking
def shrink(case):
    """Smaller cases: fewer ops, then simpler scripts, then no extras."""
    ops, scripts = case['ops'], case['scripts']

    def mk(**kw):
        c = dict(case)
        c.update(kw)
        return c
    n = len(ops)
    for k in range(1, n):
        yield mk(ops=ops[:k])
    for i in range(n):
        yield mk(ops=ops[:i] + ops[i + 1:])
    for key in ('deco', 'world', 'promise', 'pre', 'many'):
        if key in case and not (key == 'world' and 'deco' in case):
            c = dict(case)
            del c[key]
            yield c
    trivial = [[[], ['return', None]]]
    used = set(o[1] for o in ops if o[0] != 'process')
    for _, steps in scripts:
        for acts, _ in steps:
            used.update(a[1] for a in acts)
    for si, (g, steps) in enumerate(scripts):
        def with_steps(new):
            return mk(scripts=scripts[:si] + [[g, new]] + scripts[si + 1:])
        if g not in used and len(scripts) > 1:
            yield mk(scripts=scripts[:si] + scripts[si + 1:])
        if steps != trivial:
            yield with_steps(trivial)
        for k in range(1, len(steps)):
            if steps[k - 1][1][0] not in ('return', 'raise'):
                yield with_steps(steps[:k] + [[[], ['return', None]]])
        for k, (acts, res) in enumerate(steps):
            if acts:
                yield with_steps(steps[:k] + [[[], res]] + steps[k + 1:])
                if len(acts) > 1:
                    for j in range(len(acts)):
                        yield with_steps(steps[:k] + [[acts[:j] + acts[j + 1:], res]] + steps[k + 1:])
            if res[0] == 'raise':
                yield with_steps(steps[:k] + [[acts, ['return', None]]] + steps[k + 1:])
            if res[0] == 'yield' and res[1] is not None:
                yield with_steps(steps[:k] + [[acts, ['yield', None]]] + steps[k + 1:])
                if len(res) > 2:
                    yield with_steps(steps[:k] + [[acts, res[:2]]] + steps[k + 1:])
    for i, o in enumerate(ops):
        if o[0] == 'process' and len(o) > 2:
            yield mk(ops=ops[:i] + [o[:2]] + ops[i + 1:])
