"""Add / replace one entry of /verif/known_findings.json under a lock.
usage: python -m harness.kf <entry.json>
entry = {"id": "K4", "property": "C03", "what": "...", "pattern": "...",
         "witnesses": [case, ...]}"""
import fcntl, json, os, sys
ROOT = os.path.dirname(os.path.dirname(os.path.abspath(__file__)))
def main():
    entry = json.load(open(sys.argv[1]))
    for k in ('id', 'property', 'what', 'pattern', 'witnesses'):
        assert k in entry, k
    p = os.path.join(ROOT, 'known_findings.json')
    with open(p + '.lock', 'w') as lk:
        fcntl.flock(lk, fcntl.LOCK_EX)
        data = json.load(open(p))
        data['findings'] = [f for f in data['findings'] if f['id'] != entry['id']] + [entry]
        json.dump(data, open(p, 'w'), indent=1)
if __name__ == '__main__':
    main()
