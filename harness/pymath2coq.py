"""pymath2coq - translate desper/math.py into Coq definitions (property C18).

A fail-closed symbolic executor over Python's `ast`.  Every method listed in
TARGETS is executed on tuples whose entries are symbolic numbers; tuple sizes,
types, indices, loop bounds and `None`/`len`/`type` tests are concrete, so the
result of a method is one closed arithmetic expression per output entry.  An
`if` on a symbolic number forks the execution (both runs are merged into a
Coq conditional).  Anything outside the supported subset raises Unsupported
naming the method; the generated file then contains a line that cannot be
compiled, so nothing is ever proved about code the translator did not
understand.

The output (coq/theories/Math/MathGen.v) is written over the abstract
signature of Math/Sig.v (class `ops`): the same text is instantiated over R
for the proofs and over Q for evaluation.

    python -m harness.pymath2coq            # regenerate from harness.core.REPO
    python -m harness.pymath2coq --stdout   # print instead of writing
"""
import ast
import copy
import hashlib
import os
import sys
from fractions import Fraction

# functions of the `operator` module: binary -> ast operator, unary -> ast operator
OP_BIN = {'add': ast.Add, 'sub': ast.Sub, 'mul': ast.Mult, 'truediv': ast.Div,
          'matmul': ast.MatMult, 'pow': ast.Pow, 'floordiv': ast.FloorDiv, 'mod': ast.Mod}
OP_UN = {'neg': ast.USub, 'pos': ast.UAdd, 'inv': ast.Invert, 'invert': ast.Invert,
         'not_': ast.Not}
OP_CMP = {'lt': ast.Lt, 'le': ast.LtE, 'gt': ast.Gt, 'ge': ast.GtE, 'eq': ast.Eq, 'ne': ast.NotEq}
MATH_NAMES = ('sqrt', 'cos', 'sin', 'tan', 'atan2', 'hypot', 'radians', 'pi')
SIZES = {'Vec2': 2, 'Vec3': 3, 'Vec4': 4, 'Mat3': 9, 'Mat4': 16}
VTYPE = {2: 'V2', 3: 'V3', 4: 'V4', 9: 'V9', 16: 'V16'}

# (key, class, method, argument shapes).  A shape is a class name (symbolic
# instance), 's' (symbolic scalar) or ('c', n) (the Python constant n).
# The receiver is not listed: it is an instance of the class unless the
# method is a static/class method or a module function (class None).
TARGETS = [
    ('clamp', None, 'clamp', ['s', 's', 's']),
]
for _c in ('Vec2', 'Vec3', 'Vec4'):
    TARGETS += [('%s.%s' % (_c, p), _c, p, []) for p in 'xyzw'[:SIZES[_c]]]
    TARGETS += [
        ('%s.__new__' % _c, _c, '__call__', []),
        ('%s.__add__' % _c, _c, '__add__', [_c]),
        ('%s.__sub__' % _c, _c, '__sub__', [_c]),
        ('%s.__mul__' % _c, _c, '__mul__', [_c]),
        ('%s.__truediv__' % _c, _c, '__truediv__', [_c]),
        ('%s.__abs__' % _c, _c, '__abs__', []),
        ('%s.__neg__' % _c, _c, '__neg__', []),
        ('%s.__radd__/0' % _c, _c, '__radd__', [('c', 0)]),
        ('%s.__radd__/v' % _c, _c, '__radd__', [_c]),
        ('%s.lerp' % _c, _c, 'lerp', [_c, 's']),
        ('%s.scale' % _c, _c, 'scale', ['s']),
        ('%s.distance' % _c, _c, 'distance', [_c]),
        ('%s.normalize' % _c, _c, 'normalize', []),
        ('%s.clamp' % _c, _c, 'clamp', ['s', 's']),
        ('%s.dot' % _c, _c, 'dot', [_c]),
    ]
TARGETS += [
    ('Vec2.from_polar', 'Vec2', 'from_polar', ['s', 's']),
    ('Vec2.heading', 'Vec2', 'heading', []),
    ('Vec2.mag', 'Vec2', 'mag', []),
    ('Vec2.from_magnitude', 'Vec2', 'from_magnitude', ['s']),
    ('Vec2.from_heading', 'Vec2', 'from_heading', ['s']),
    ('Vec2.limit', 'Vec2', 'limit', ['s']),
    ('Vec2.rotate', 'Vec2', 'rotate', ['s']),
    ('Vec3.mag', 'Vec3', 'mag', []),
    ('Vec3.from_magnitude', 'Vec3', 'from_magnitude', ['s']),
    ('Vec3.limit', 'Vec3', 'limit', ['s']),
    ('Vec3.cross', 'Vec3', 'cross', ['Vec3']),
]
for _c, _v in (('Mat3', 'Vec3'), ('Mat4', 'Vec4')):
    TARGETS += [
        ('%s.__new__' % _c, _c, '__call__', []),
        ('%s.__add__' % _c, _c, '__add__', [_c]),
        ('%s.__sub__' % _c, _c, '__sub__', [_c]),
        ('%s.__pos__' % _c, _c, '__pos__', []),
        ('%s.__neg__' % _c, _c, '__neg__', []),
        ('%s.__matmul__/m' % _c, _c, '__matmul__', [_c]),
        ('%s.__matmul__/v' % _c, _c, '__matmul__', [_v]),
    ]
TARGETS += [
    ('Mat4.transpose', 'Mat4', 'transpose', []),
    ('Mat4.__invert__', 'Mat4', '__invert__', []),
    ('Mat4.orthogonal_projection', 'Mat4', 'orthogonal_projection', ['s'] * 6),
    ('Mat4.from_translation', 'Mat4', 'from_translation', ['Vec3']),
    ('Mat4.from_scale', 'Mat4', 'from_scale', ['Vec3']),
    ('Mat4.translate', 'Mat4', 'translate', ['Vec3']),
]
# second round: the remaining transforms, rows/columns, rounding
TARGETS += [
    ('Mat4.scale', 'Mat4', 'scale', ['Vec3']),
    ('Mat4.rotate', 'Mat4', 'rotate', ['s', 'Vec3']),
    ('Mat4.from_rotation', 'Mat4', 'from_rotation', ['s', 'Vec3']),
    ('Mat4.perspective_projection', 'Mat4', 'perspective_projection', ['s'] * 7),
    ('Mat4.perspective_projection/fov60', 'Mat4', 'perspective_projection', ['s'] * 6),
    ('Mat4.look_at', 'Mat4', 'look_at', ['Vec3', 'Vec3', 'Vec3']),
    ('Mat3.scale', 'Mat3', 'scale', ['s', 's']),
    ('Mat3.translate', 'Mat3', 'translate', ['s', 's']),
    ('Mat3.rotate', 'Mat3', 'rotate', ['s']),
    ('Mat3.shear', 'Mat3', 'shear', ['s', 's']),
]
TARGETS += [('Mat4.row/%d' % _k, 'Mat4', 'row', [('c', _k)]) for _k in range(4)]
TARGETS += [('Mat4.column/%d' % _k, 'Mat4', 'column', [('c', _k)]) for _k in range(4)]
for _c in ('Vec2', 'Vec3', 'Vec4', 'Mat3', 'Mat4'):
    TARGETS += [('%s.__round__/n' % _c, _c, '__round__', []),
                ('%s.__round__/2' % _c, _c, '__round__', [('c', 2)])]


class Unsupported(Exception):
    pass


class Fork(Exception):
    def __init__(self, cond):
        self.cond = cond


class _Break(Exception):
    pass


class _Continue(Exception):
    pass


class _Return(Exception):
    def __init__(self, v):
        self.v = v


# ------------------------------------------------------------------ values
class Num:
    """A concrete Python number (int or float), kept exactly."""
    def __init__(self, v, isint):
        self.v, self.isint = Fraction(v), bool(isint)


class Sym:
    """A symbolic number: expression tree of tuples."""
    def __init__(self, e):
        self.e = e


class SymB:
    """A symbolic truth value."""
    def __init__(self, e):
        self.e = e


class Tup:
    """tuple / list / instance of one of the five classes (a tuple)."""
    def __init__(self, cls, items):
        self.cls, self.items = cls, list(items)


class ClsRef:
    def __init__(self, name):
        self.name = name


class Bound:
    """obj.method (not yet called)"""
    def __init__(self, recv, cls, name):
        self.recv, self.cls, self.name = recv, cls, name


class Lambda:
    def __init__(self, node, env):
        self.node, self.env = node, env


class Builtin:
    def __init__(self, name):
        self.name = name


def expr_of(v):
    if isinstance(v, Sym):
        return v.e
    if isinstance(v, Num):
        return ('lit', v.v)
    raise Unsupported('a number was expected, got %s' % type(v).__name__)


def is_scalar(v):
    return isinstance(v, (Num, Sym))


def mk_ite(c, a, b):
    if a == b:
        return a
    return ('ite', c, a, b)


def merge(c, a, b):
    """value = a if c else b, for results of two forked runs"""
    if isinstance(a, bool) and isinstance(b, bool):
        if a == b:
            return a
        return SymB(mk_ite(c, bexpr_of(a), bexpr_of(b)))
    if isinstance(a, (bool, SymB)) and isinstance(b, (bool, SymB)):
        return SymB(mk_ite(c, bexpr_of(a), bexpr_of(b)))
    if is_scalar(a) and is_scalar(b):
        ea, eb = expr_of(a), expr_of(b)
        if ea == eb:
            return a
        return Sym(mk_ite(c, ea, eb))
    if isinstance(a, Tup) and isinstance(b, Tup):
        if a.cls != b.cls or len(a.items) != len(b.items):
            raise Unsupported('branches return values of different shape '
                              '(%s/%d, %s/%d)' % (a.cls, len(a.items), b.cls, len(b.items)))
        return Tup(a.cls, [merge(c, x, y) for x, y in zip(a.items, b.items)])
    raise Unsupported('branches return values that cannot be merged')


def bexpr_of(v):
    if v is True:
        return ('true',)
    if v is False:
        return ('false',)
    if isinstance(v, SymB):
        return v.e
    raise Unsupported('a truth value was expected')


# ---------------------------------------------------------------- executor
class Module:
    def __init__(self, source):
        self.tree = ast.parse(source)
        self.classes, self.funcs, self.aliases = {}, {}, {}
        for n in self.tree.body:
            if isinstance(n, ast.ClassDef):
                self.classes[n.name] = {f.name: f for f in n.body
                                        if isinstance(f, ast.FunctionDef)}
            elif isinstance(n, ast.FunctionDef):
                self.funcs[n.name] = n
            elif isinstance(n, ast.Import):
                for a in n.names:
                    self.aliases[a.asname or a.name] = ('module', a.name)
            elif isinstance(n, ast.ImportFrom):
                for a in n.names:
                    self.aliases[a.asname or a.name] = ('from', n.module, a.name)

    def kind(self, cls, name):
        f = self.classes[cls][name]
        for d in f.decorator_list:
            s = ast.unparse(d)
            if s in ('property', 'staticmethod', 'classmethod'):
                return s
            raise Unsupported('decorator %s' % s)
        return 'method'


class Run:
    """One execution of one target with a fixed list of branch decisions."""
    MAX_STEPS = 200000

    def __init__(self, mod, decisions):
        self.mod, self.decisions, self.pos = mod, decisions, 0
        self.warned = False
        self.pre = True          # conjunction of the asserts on symbolic values
        self.steps = 0
        self.depth = 0

    # -- branching on a symbolic condition
    def decide(self, c):
        if c is True or c is False:
            return c
        if not isinstance(c, SymB):
            raise Unsupported('condition is not a truth value')
        if self.pos < len(self.decisions):
            d = self.decisions[self.pos]
            self.pos += 1
            return d
        if len(self.decisions) >= 12:
            raise Unsupported('more than 12 nested data-dependent branches')
        raise Fork(c.e)

    def truth(self, v):
        """Python truthiness"""
        if v is None:
            return False
        if isinstance(v, bool):
            return v
        if isinstance(v, SymB):
            return v
        if isinstance(v, Num):
            return v.v != 0
        if isinstance(v, Sym):           # `if d:`  <=>  d != 0
            return SymB(('negb', ('eqb', v.e, ('lit', Fraction(0)))))
        if isinstance(v, Tup):
            return len(v.items) > 0
        if isinstance(v, str):
            return len(v) > 0
        raise Unsupported('truth value of %s' % type(v).__name__)

    # -- calls
    def call_function(self, f, args, kwargs, cls):
        self.depth += 1
        if self.depth > 40:
            raise Unsupported('call depth')
        a = f.args
        if a.posonlyargs or a.kwonlyargs or a.kwarg:
            raise Unsupported('parameter kinds of %s' % f.name)
        names = [x.arg for x in a.args]
        env = {}
        args = list(args)
        if len(args) > len(names) and not a.vararg:
            raise Unsupported('too many arguments for %s' % f.name)
        for n, v in zip(names, args):
            env[n] = v
        if a.vararg:
            env[a.vararg.arg] = Tup('tuple', args[len(names):])
        for k, v in kwargs.items():
            if k not in names or k in env:
                raise Unsupported('keyword argument %s of %s' % (k, f.name))
            env[k] = v
        defaults = dict(zip(names[len(names) - len(a.defaults):], a.defaults))
        for n in names:
            if n not in env:
                if n not in defaults:
                    raise Unsupported('missing argument %s of %s' % (n, f.name))
                env[n] = self.ev(defaults[n], {}, cls)
        try:
            self.block(f.body, env, cls)
        except _Return as r:
            self.depth -= 1
            return r.v
        self.depth -= 1
        return None

    def call_method(self, cls, name, recv, args, kwargs=None):
        kwargs = kwargs or {}
        if cls not in self.mod.classes or name not in self.mod.classes[cls]:
            raise Unsupported('no method %s.%s' % (cls, name))
        f = self.mod.classes[cls][name]
        k = self.mod.kind(cls, name)
        if k == 'staticmethod':
            return self.call_function(f, args, kwargs, cls)
        if k == 'classmethod':
            return self.call_function(f, [ClsRef(cls)] + list(args), kwargs, cls)
        return self.call_function(f, [recv] + list(args), kwargs, cls)

    def construct(self, cls, args, kwargs):
        """Cls(*args): tuple subclasses with __new__"""
        if cls not in SIZES:
            raise Unsupported('constructor of %s' % cls)
        if '__new__' not in self.mod.classes[cls] or '__init__' in self.mod.classes[cls]:
            raise Unsupported('%s has no __new__ / has __init__' % cls)
        f = self.mod.classes[cls]['__new__']
        if f.decorator_list:
            raise Unsupported('decorated __new__')
        r = self.call_function(f, [ClsRef(cls)] + list(args), kwargs, cls)
        if not (isinstance(r, Tup) and r.cls in SIZES):
            raise Unsupported('%s.__new__ does not return an instance' % cls)
        if len(r.items) != SIZES[r.cls]:
            raise Unsupported('%s built with %d entries' % (r.cls, len(r.items)))
        return r

    # -- statements
    def block(self, stmts, env, cls):
        for st in stmts:
            self.stmt(st, env, cls)

    def stmt(self, st, env, cls):
        self.steps += 1
        if self.steps > self.MAX_STEPS:
            raise Unsupported('too many steps')
        if isinstance(st, ast.Expr):
            if isinstance(st.value, ast.Constant):
                return                                   # docstring
            if isinstance(st.value, ast.Call):
                fn = ast.unparse(st.value.func)
                if fn in ('_warnings.warn', 'warnings.warn'):
                    self.warned = True
                    return
                self.ev(st.value, env, cls)              # e.g. out.append(x)
                return
            raise Unsupported('expression statement `%s`' % ast.unparse(st)[:60])
        if isinstance(st, ast.Pass):
            return
        if isinstance(st, ast.Assert):
            c = self.truth(self.ev(st.test, env, cls))
            if c is True:
                return
            if isinstance(c, SymB):
                # a precondition on the data: the run continues as if it held
                # (Python raises AssertionError otherwise); recorded in <name>_pre
                self.pre = c if self.pre is True else SymB(
                    ('andb', bexpr_of(self.pre), c.e))
                return
            raise Unsupported('assert that always fails: `%s`'
                              % ast.unparse(st.test)[:60])
        if isinstance(st, ast.Assign):
            v = self.ev(st.value, env, cls)
            for t in st.targets:
                self.assign(t, v, env, cls)
            return
        if isinstance(st, ast.AnnAssign):
            if st.value is None:
                return
            self.assign(st.target, self.ev(st.value, env, cls), env, cls)
            return
        if isinstance(st, ast.AugAssign):
            cur = self.ev(_as_load(st.target), env, cls)
            v = self.binop(st.op, cur, self.ev(st.value, env, cls))
            self.assign(st.target, v, env, cls)
            return
        if isinstance(st, ast.Return):
            raise _Return(None if st.value is None else self.ev(st.value, env, cls))
        if isinstance(st, ast.If):
            c = self.decide(self.truth(self.ev(st.test, env, cls)))
            self.block(st.body if c else st.orelse, env, cls)
            return
        if isinstance(st, ast.For):
            if st.orelse:
                raise Unsupported('for-else')
            for x in self.iterate(self.ev(st.iter, env, cls)):
                self.assign(st.target, x, env, cls)
                try:
                    self.block(st.body, env, cls)
                except _Break:
                    break
                except _Continue:
                    continue
            return
        if isinstance(st, ast.While):
            if st.orelse:
                raise Unsupported('while-else')
            n = 0
            while self.decide(self.truth(self.ev(st.test, env, cls))):
                n += 1
                if n > 64:
                    raise Unsupported('while loop runs more than 64 times')
                try:
                    self.block(st.body, env, cls)
                except _Break:
                    break
                except _Continue:
                    continue
            return
        if isinstance(st, ast.Break):
            raise _Break()
        if isinstance(st, ast.Continue):
            raise _Continue()
        raise Unsupported('statement %s' % type(st).__name__)

    def assign(self, t, v, env, cls):
        if isinstance(t, ast.Name):
            env[t.id] = v
            return
        if isinstance(t, (ast.Tuple, ast.List)):
            items = self.iterate(v)
            if any(isinstance(e, ast.Starred) for e in t.elts) or len(items) != len(t.elts):
                raise Unsupported('unpacking')
            for e, x in zip(t.elts, items):
                self.assign(e, x, env, cls)
            return
        if isinstance(t, ast.Subscript):
            obj = self.ev(t.value, env, cls)
            if not (isinstance(obj, Tup) and obj.cls == 'list'):
                raise Unsupported('item assignment to a non-list')
            i = self.index(self.ev(t.slice, env, cls), len(obj.items))
            obj.items[i] = v
            return
        raise Unsupported('assignment target %s' % type(t).__name__)

    def index(self, v, n):
        if not (isinstance(v, Num) and v.isint):
            raise Unsupported('index is not a concrete integer')
        i = int(v.v)
        if i < -n or i >= n:
            raise Unsupported('index %d out of range %d' % (i, n))
        return i % n

    def iterate(self, v):
        if isinstance(v, Tup):
            return list(v.items)
        raise Unsupported('iteration over %s' % type(v).__name__)

    # -- arithmetic
    def binop(self, op, a, b):
        if isinstance(op, ast.MatMult):
            if isinstance(a, Tup) and a.cls in SIZES:
                return self.call_method(a.cls, '__matmul__', a, [b])
            raise Unsupported('@ on %s' % type(a).__name__)
        if isinstance(a, Tup) or isinstance(b, Tup):
            dunder = {ast.Add: '__add__', ast.Sub: '__sub__', ast.Mult: '__mul__',
                      ast.Div: '__truediv__'}.get(type(op))
            if isinstance(a, Tup) and a.cls in SIZES and dunder:
                return self.call_method(a.cls, dunder, a, [b])
            if (isinstance(a, Tup) and isinstance(b, Tup) and isinstance(op, ast.Add)
                    and a.cls == b.cls and a.cls in ('tuple', 'list')):
                return Tup(a.cls, a.items + b.items)
            if (isinstance(a, Tup) and isinstance(b, Tup) and isinstance(op, ast.Add)
                    and b.cls in SIZES and a.cls == 'tuple'):
                return Tup('tuple', a.items + b.items)   # tuple + Vec: tuple.__add__
            if (isinstance(op, ast.Mult) and isinstance(a, Tup) and a.cls in ('tuple', 'list')
                    and isinstance(b, Num) and b.isint):
                return Tup(a.cls, [copy.copy(x) for _ in range(max(0, int(b.v)))
                                   for x in a.items])
            if isinstance(op, ast.Add) and isinstance(b, Tup) and b.cls in SIZES \
                    and isinstance(a, Num):
                return self.call_method(b.cls, '__radd__', b, [a])
            raise Unsupported('operator %s on tuples' % type(op).__name__)
        if not (is_scalar(a) and is_scalar(b)):
            raise Unsupported('operator %s on %s, %s' % (
                type(op).__name__, type(a).__name__, type(b).__name__))
        if isinstance(op, ast.Pow):
            if isinstance(b, Num) and b.isint and 0 <= b.v <= 8:
                n = int(b.v)
                if n == 0:
                    raise Unsupported('x ** 0')
                r = a
                for _ in range(n - 1):
                    r = self.binop(ast.Mult(), r, a)
                return r
            if isinstance(b, Num) and b.v == Fraction(1, 2):
                return Sym(('sqrt', expr_of(a)))
            raise Unsupported('power with exponent other than 1..8 or 0.5')
        if isinstance(a, Num) and isinstance(b, Num):
            isint = a.isint and b.isint
            if isinstance(op, ast.Add):
                return Num(a.v + b.v, isint)
            if isinstance(op, ast.Sub):
                return Num(a.v - b.v, isint)
            if isinstance(op, ast.Mult):
                return Num(a.v * b.v, isint)
            if isinstance(op, ast.Div):
                if b.v == 0:
                    raise Unsupported('division by the constant 0')
                return Num(a.v / b.v, False)
            if isinstance(op, ast.FloorDiv) and isint and b.v != 0:
                return Num(a.v.numerator // b.v.numerator, True)
            if isinstance(op, ast.Mod) and isint and b.v != 0:
                return Num(a.v.numerator % b.v.numerator, True)
            raise Unsupported('operator %s on constants' % type(op).__name__)
        tag = {ast.Add: 'add', ast.Sub: 'sub', ast.Mult: 'mul', ast.Div: 'div'}.get(type(op))
        if tag is None:
            raise Unsupported('operator %s on numbers' % type(op).__name__)
        return Sym((tag, expr_of(a), expr_of(b)))

    def unop(self, op, v):
        if isinstance(op, ast.Not):
            t = self.truth(v)
            return (not t) if isinstance(t, bool) else SymB(('negb', t.e))
        if isinstance(v, Tup):
            d = {ast.USub: '__neg__', ast.UAdd: '__pos__', ast.Invert: '__invert__'}[type(op)]
            if v.cls in SIZES:
                return self.call_method(v.cls, d, v, [])
            raise Unsupported('unary operator on a tuple')
        if isinstance(op, ast.USub) and is_scalar(v):
            if isinstance(v, Num):
                return Num(-v.v, v.isint)
            return Sym(('opp', expr_of(v)))
        if isinstance(op, ast.UAdd) and is_scalar(v):
            return v
        raise Unsupported('unary %s on %s' % (type(op).__name__, type(v).__name__))

    def compare(self, op, a, b):
        if isinstance(op, (ast.Is, ast.IsNot)):
            pos = isinstance(op, ast.Is)
            if isinstance(a, ClsRef) and isinstance(b, ClsRef):
                return (a.name == b.name) == pos
            if a is None or b is None:
                return ((a is None) and (b is None)) == pos
            raise Unsupported('`is` on values')
        if isinstance(op, (ast.In, ast.NotIn)):
            if isinstance(b, Tup) and isinstance(a, Num) and all(
                    isinstance(x, Num) for x in b.items):
                return any(x.v == a.v for x in b.items) == isinstance(op, ast.In)
            raise Unsupported('`in` on symbolic values')
        if isinstance(a, Num) and isinstance(b, Num):
            return {ast.Lt: a.v < b.v, ast.LtE: a.v <= b.v, ast.Gt: a.v > b.v,
                    ast.GtE: a.v >= b.v, ast.Eq: a.v == b.v,
                    ast.NotEq: a.v != b.v}[type(op)]
        if is_scalar(a) and is_scalar(b):
            x, y = expr_of(a), expr_of(b)
            e = {ast.Lt: ('ltb', x, y), ast.Gt: ('ltb', y, x),
                 ast.LtE: ('negb', ('ltb', y, x)), ast.GtE: ('negb', ('ltb', x, y)),
                 ast.Eq: ('eqb', x, y), ast.NotEq: ('negb', ('eqb', x, y))}.get(type(op))
            if e is None:
                raise Unsupported('comparison %s' % type(op).__name__)
            return SymB(e)
        if isinstance(op, (ast.Eq, ast.NotEq)):
            pos = isinstance(op, ast.Eq)
            # tuple == number: tuple.__eq__ gives NotImplemented, hence False
            if (isinstance(a, Tup) and isinstance(b, Num)) or (
                    isinstance(a, Num) and isinstance(b, Tup)):
                return not pos
            if isinstance(a, ClsRef) and isinstance(b, ClsRef):
                return (a.name == b.name) == pos
            if a is None or b is None:
                return ((a is None) and (b is None)) == pos
        raise Unsupported('comparison of %s with %s' % (type(a).__name__, type(b).__name__))

    # -- expressions
    def ev(self, n, env, cls):
        self.steps += 1
        if self.steps > self.MAX_STEPS:
            raise Unsupported('too many steps')
        if isinstance(n, ast.Constant):
            v = n.value
            if v is None or isinstance(v, (bool, str)):
                return v
            if isinstance(v, int):
                return Num(v, True)
            if isinstance(v, float):
                if v != v or v in (float('inf'), float('-inf')):
                    raise Unsupported('float literal %r' % v)
                return Num(Fraction(v), False)
            raise Unsupported('literal %r' % (v,))
        if isinstance(n, ast.Name):
            if n.id in env:
                return env[n.id]
            if n.id in self.mod.classes:
                return ClsRef(n.id)
            if n.id in self.mod.funcs:
                return Builtin('func:' + n.id)
            al = self.mod.aliases.get(n.id)
            if al and al[0] == 'from' and al[1] == 'operator':
                if al[2] in OP_BIN or al[2] in OP_UN or al[2] in OP_CMP or al[2] == 'abs':
                    return Builtin('op.' + al[2])
                raise Unsupported('operator.%s' % al[2])
            if al == ('from', 'functools', 'reduce'):
                return Builtin('reduce')
            if al and al[0] == 'from' and al[1] == 'math' and al[2] in MATH_NAMES:
                return Sym(('pi',)) if al[2] == 'pi' else Builtin('math.' + al[2])
            if n.id in ('len', 'tuple', 'list', 'sum', 'map', 'zip', 'range', 'enumerate',
                        'abs', 'min', 'max', 'type', 'isinstance', 'reversed', 'all',
                        'any', 'super', 'float', 'round'):
                return Builtin(n.id)
            raise Unsupported('name %s' % n.id)
        if isinstance(n, ast.BinOp):
            return self.binop(n.op, self.ev(n.left, env, cls), self.ev(n.right, env, cls))
        if isinstance(n, ast.UnaryOp):
            return self.unop(n.op, self.ev(n.operand, env, cls))
        if isinstance(n, ast.BoolOp):
            # Python semantics while everything is concrete: short circuit,
            # the deciding operand is the value
            vals, ts = [], []
            for x in n.values:
                v = self.ev(x, env, cls)
                t = self.truth(v)
                vals.append(v)
                ts.append(t)
                if all(isinstance(u, bool) for u in ts) and t == isinstance(n.op, ast.Or):
                    return v
            if all(isinstance(t, bool) for t in ts):
                return vals[-1]
            if not all(isinstance(v, (bool, SymB)) for v in vals):
                raise Unsupported('and/or on symbolic numbers')
            tag = 'orb' if isinstance(n.op, ast.Or) else 'andb'
            e = bexpr_of(ts[0])
            for t in ts[1:]:
                e = (tag, e, bexpr_of(t))
            return SymB(e)
        if isinstance(n, ast.Compare):
            left = self.ev(n.left, env, cls)
            res = None
            for op, c in zip(n.ops, n.comparators):
                right = self.ev(c, env, cls)
                r = self.compare(op, left, right)
                if res is None:
                    res = r
                elif isinstance(res, bool) and isinstance(r, bool):
                    res = res and r
                else:
                    res = SymB(('andb', bexpr_of(res), bexpr_of(r)))
                left = right
            return res
        if isinstance(n, ast.IfExp):
            c = self.decide(self.truth(self.ev(n.test, env, cls)))
            return self.ev(n.body if c else n.orelse, env, cls)
        if isinstance(n, (ast.Tuple, ast.List)):
            items = []
            for e in n.elts:
                if isinstance(e, ast.Starred):
                    items += self.iterate(self.ev(e.value, env, cls))
                else:
                    items.append(self.ev(e, env, cls))
            return Tup('tuple' if isinstance(n, ast.Tuple) else 'list', items)
        if isinstance(n, (ast.GeneratorExp, ast.ListComp)):
            out = []
            self.comprehension(n.elt, n.generators, dict(env), cls, out)
            return Tup('list', out)
        if isinstance(n, ast.Subscript):
            v = self.ev(n.value, env, cls)
            if not isinstance(v, Tup):
                raise Unsupported('subscript of %s' % type(v).__name__)
            if v.cls in SIZES and '__getitem__' in self.mod.classes[v.cls]:
                raise Unsupported('%s overrides __getitem__' % v.cls)
            if isinstance(n.slice, ast.Slice):
                def g(x):
                    if x is None:
                        return None
                    y = self.ev(x, env, cls)
                    if not (isinstance(y, Num) and y.isint):
                        raise Unsupported('slice bound is not a concrete integer')
                    return int(y.v)
                sl = slice(g(n.slice.lower), g(n.slice.upper), g(n.slice.step))
                return Tup('list' if v.cls == 'list' else 'tuple', v.items[sl])
            return v.items[self.index(self.ev(n.slice, env, cls), len(v.items))]
        if isinstance(n, ast.Attribute):
            base = ast.unparse(n)
            if isinstance(n.value, ast.Name) and n.value.id not in env:
                al = self.mod.aliases.get(n.value.id)
                if al == ('module', 'operator'):
                    if n.attr in OP_BIN or n.attr in OP_UN or n.attr in OP_CMP or n.attr == 'abs':
                        return Builtin('op.' + n.attr)
                    raise Unsupported('operator.%s' % n.attr)
                if al == ('module', 'functools') and n.attr == 'reduce':
                    return Builtin('reduce')
                if al == ('module', 'math') and n.attr in MATH_NAMES and \
                        n.value.id not in ('_math', 'math'):
                    return Sym(('pi',)) if n.attr == 'pi' else Builtin('math.' + n.attr)
            if base in ('_math.' + x for x in MATH_NAMES) or base in (
                    'math.' + x for x in MATH_NAMES):
                root = base.split('.')[0]
                if self.mod.aliases.get(root) != ('module', 'math'):
                    raise Unsupported('%s is not the math module' % root)
                if n.attr == 'pi':
                    return Sym(('pi',))
                return Builtin('math.' + n.attr)
            v = self.ev(n.value, env, cls)
            if isinstance(v, Tup) and v.cls in SIZES:
                if n.attr in self.mod.classes[v.cls]:
                    if self.mod.kind(v.cls, n.attr) == 'property':
                        f = self.mod.classes[v.cls][n.attr]
                        return self.call_function(f, [v], {}, v.cls)
                    return Bound(v, v.cls, n.attr)
                raise Unsupported('attribute %s of %s (swizzles are modelled by hand)'
                                  % (n.attr, v.cls))
            if isinstance(v, Tup) and v.cls == 'list' and n.attr in ('append', 'extend'):
                return Bound(v, 'list', n.attr)
            if isinstance(v, ClsRef):
                if n.attr in self.mod.classes[v.name]:
                    return Bound(None, v.name, n.attr)
            raise Unsupported('attribute %s' % ast.unparse(n)[:40])
        if isinstance(n, ast.Lambda):
            return Lambda(n, env)
        if isinstance(n, ast.Call):
            return self.call(n, env, cls)
        raise Unsupported('expression %s `%s`' % (type(n).__name__, ast.unparse(n)[:40]))

    def comprehension(self, elt, gens, env, cls, out):
        if not gens:
            out.append(self.ev(elt, env, cls))
            return
        g = gens[0]
        if g.is_async:
            raise Unsupported('async comprehension')
        for x in self.iterate(self.ev(g.iter, env, cls)):
            self.assign(g.target, x, env, cls)
            ok = True
            for c in g.ifs:
                t = self.truth(self.ev(c, env, cls))
                if not isinstance(t, bool):
                    raise Unsupported('data-dependent filter in a comprehension')
                ok = ok and t
            if ok:
                self.comprehension(elt, gens[1:], env, cls, out)

    def call(self, n, env, cls):
        # super().__new__(Cls, values)
        if (isinstance(n.func, ast.Attribute) and n.func.attr == '__new__'
                and isinstance(n.func.value, ast.Call)
                and ast.unparse(n.func.value) == 'super()'):
            if len(n.args) != 2 or n.keywords:
                raise Unsupported('super().__new__ arguments')
            c = self.ev(n.args[0], env, cls)
            v = self.ev(n.args[1], env, cls)
            if not (isinstance(c, ClsRef) and isinstance(v, Tup)):
                raise Unsupported('super().__new__ arguments')
            if not all(is_scalar(x) for x in v.items):
                raise Unsupported('entries of a %s must be numbers' % c.name)
            return Tup(c.name, v.items)
        f = self.ev(n.func, env, cls)
        args = []
        for a in n.args:
            if isinstance(a, ast.Starred):
                args += self.iterate(self.ev(a.value, env, cls))
            else:
                args.append(self.ev(a, env, cls))
        kwargs = {}
        for k in n.keywords:
            if k.arg is None:
                raise Unsupported('**kwargs')
            kwargs[k.arg] = self.ev(k.value, env, cls)
        if isinstance(f, ClsRef):
            return self.construct(f.name, args, kwargs)
        if isinstance(f, Bound):
            if f.cls == 'list':
                if kwargs or len(args) != 1:
                    raise Unsupported('list.%s arguments' % f.name)
                if f.name == 'append':
                    f.recv.items.append(args[0])
                else:
                    f.recv.items.extend(self.iterate(args[0]))
                return None
            if f.recv is None:           # Cls.method(obj, ...)
                k = self.mod.kind(f.cls, f.name)
                if k in ('staticmethod', 'classmethod'):
                    return self.call_method(f.cls, f.name, None, args, kwargs)
                if k == 'property' or not args:
                    raise Unsupported('call of %s.%s' % (f.cls, f.name))
                if not (isinstance(args[0], Tup)):
                    raise Unsupported('receiver of %s.%s' % (f.cls, f.name))
                return self.call_method(f.cls, f.name, args[0], args[1:], kwargs)
            return self.call_method(f.cls, f.name, f.recv, args, kwargs)
        if isinstance(f, Lambda):
            if kwargs:
                raise Unsupported('keyword arguments to a lambda')
            return self.call_lambda(f, args, cls)
        if not isinstance(f, Builtin):
            raise Unsupported('call of `%s`' % ast.unparse(n.func)[:40])
        if kwargs:
            raise Unsupported('keyword arguments to %s' % f.name)
        return self.builtin(f.name, args, cls)

    def apply(self, f, args, cls):
        """call a function value (map, reduce)"""
        if isinstance(f, Builtin):
            return self.builtin(f.name, args, cls)
        if isinstance(f, Bound) and f.recv is None and args:
            k = self.mod.kind(f.cls, f.name)
            if k in ('staticmethod', 'classmethod'):
                return self.call_method(f.cls, f.name, None, args)
            return self.call_method(f.cls, f.name, args[0], args[1:])
        if isinstance(f, Bound) and f.recv is not None and f.cls != 'list':
            return self.call_method(f.cls, f.name, f.recv, args)
        if isinstance(f, ClsRef):
            return self.construct(f.name, args, {})
        if isinstance(f, Lambda):
            return self.call_lambda(f, args, cls)
        raise Unsupported('call of this kind of function value')

    def call_lambda(self, f, args, cls):
        a = f.node.args
        if a.posonlyargs or a.kwonlyargs or a.kwarg or a.vararg or a.defaults:
            raise Unsupported('lambda parameters')
        names = [x.arg for x in a.args]
        if len(names) != len(args):
            raise Unsupported('lambda arity')
        self.depth += 1
        if self.depth > 40:
            raise Unsupported('call depth')
        env = dict(f.env)
        env.update(zip(names, args))
        r = self.ev(f.node.body, env, cls)
        self.depth -= 1
        return r

    def builtin(self, name, args, cls):
        if name.startswith('func:'):
            return self.call_function(self.mod.funcs[name[5:]], args, {}, None)
        if name in ('math.sqrt', 'math.cos', 'math.sin', 'math.tan', 'math.radians') \
                and len(args) == 1:
            return Sym((name[5:], expr_of(args[0])))
        if name == 'round' and 1 <= len(args) <= 2 and is_scalar(args[0]):
            nd = args[1] if len(args) == 2 else None
            if nd is None:
                nd = 0                    # round(x) is round(x, 0) as a number
            elif isinstance(nd, Num) and nd.isint:
                nd = int(nd.v)
            else:
                raise Unsupported('round with a number of digits that is not a constant')
            return Sym(('round', expr_of(args[0]), nd))
        if name == 'math.atan2' and len(args) == 2:
            return Sym(('atan2', expr_of(args[0]), expr_of(args[1])))
        if name == 'math.hypot' and len(args) >= 1:
            acc = None
            for a in args:
                sq = self.binop(ast.Mult(), a, a)
                acc = sq if acc is None else self.binop(ast.Add(), acc, sq)
            return Sym(('sqrt', expr_of(acc)))
        if name.startswith('op.'):
            o = name[3:]
            if o in OP_BIN and len(args) == 2:
                return self.binop(OP_BIN[o](), args[0], args[1])
            if o in OP_UN and len(args) == 1:
                return self.unop(OP_UN[o](), args[0])
            if o in OP_CMP and len(args) == 2:
                return self.compare(OP_CMP[o](), args[0], args[1])
            if o == 'abs' and len(args) == 1:
                return self.builtin('abs', args, cls)
            raise Unsupported('operator.%s with %d argument(s)' % (o, len(args)))
        if name == 'reduce' and 2 <= len(args) <= 3:
            items = self.iterate(args[1])
            if len(args) == 3:
                items = [args[2]] + items
            if not items:
                raise Unsupported('reduce of an empty sequence')
            acc = items[0]
            for x in items[1:]:
                acc = self.apply(args[0], [acc, x], cls)
            return acc
        if name == 'len' and len(args) == 1 and isinstance(args[0], Tup):
            return Num(len(args[0].items), True)
        if name in ('tuple', 'list') and len(args) <= 1:
            return Tup(name, self.iterate(args[0]) if args else [])
        if name == 'float' and len(args) == 1 and is_scalar(args[0]):
            return args[0] if isinstance(args[0], Sym) else Num(args[0].v, False)
        if name == 'reversed' and len(args) == 1:
            return Tup('list', self.iterate(args[0])[::-1])
        if name == 'range' and 1 <= len(args) <= 3 and all(
                isinstance(a, Num) and a.isint for a in args):
            return Tup('list', [Num(i, True) for i in range(*[int(a.v) for a in args])])
        if name == 'zip':
            cols = [self.iterate(a) for a in args]
            return Tup('list', [Tup('tuple', list(r)) for r in zip(*cols)])
        if name == 'enumerate' and len(args) == 1:
            return Tup('list', [Tup('tuple', [Num(i, True), x])
                                for i, x in enumerate(self.iterate(args[0]))])
        if name == 'map' and len(args) >= 2:
            cols = [self.iterate(a) for a in args[1:]]
            f = args[0]
            out = []
            for r in zip(*cols):
                out.append(self.apply(f, list(r), cls))
            return Tup('list', out)
        if name == 'sum' and 1 <= len(args) <= 2:
            acc = args[1] if len(args) == 2 else Num(0, True)
            for x in self.iterate(args[0]):
                acc = self.binop(ast.Add(), acc, x)
            return acc
        if name == 'abs' and len(args) == 1:
            v = args[0]
            if isinstance(v, Tup) and v.cls in SIZES:
                return self.call_method(v.cls, '__abs__', v, [])
            if isinstance(v, Num):
                return Num(abs(v.v), v.isint)
            e = expr_of(v)
            return Sym(('ite', ('ltb', e, ('lit', Fraction(0))), ('opp', e), e))
        if name in ('min', 'max'):
            items = self.iterate(args[0]) if len(args) == 1 else list(args)
            if not items or not all(is_scalar(x) for x in items):
                raise Unsupported('%s of non-numbers' % name)
            acc = items[0]
            for x in items[1:]:
                # CPython: max keeps the first maximal element (replace if x > acc),
                # min keeps the first minimal one (replace if x < acc)
                if isinstance(acc, Num) and isinstance(x, Num):
                    rep = (x.v > acc.v) if name == 'max' else (x.v < acc.v)
                    acc = x if rep else acc
                    continue
                ea, ex = expr_of(acc), expr_of(x)
                c = ('ltb', ea, ex) if name == 'max' else ('ltb', ex, ea)
                acc = Sym(mk_ite(c, ex, ea))
            return acc
        if name == 'type' and len(args) == 1:
            if isinstance(args[0], Tup):
                return ClsRef(args[0].cls)
            raise Unsupported('type() of a number')
        if name == 'isinstance' and len(args) == 2 and isinstance(args[0], Tup):
            cs = self.iterate(args[1]) if isinstance(args[1], Tup) else [args[1]]
            if all(isinstance(c, ClsRef) for c in cs):
                return any(args[0].cls == c.name for c in cs)
            if all(isinstance(c, Builtin) and c.name in ('tuple', 'list') for c in cs):
                # the five classes are tuples
                return any((c.name == 'tuple' and args[0].cls != 'list') or
                           (c.name == 'list' and args[0].cls == 'list') for c in cs)
        if name in ('all', 'any') and len(args) == 1:
            ts = [self.truth(x) for x in self.iterate(args[0])]
            if all(isinstance(t, bool) for t in ts):
                return all(ts) if name == 'all' else any(ts)
            tag = 'andb' if name == 'all' else 'orb'
            e = bexpr_of(ts[0])
            for t in ts[1:]:
                e = (tag, e, bexpr_of(t))
            return SymB(e)
        raise Unsupported('call of %s with %d argument(s)' % (name, len(args)))


def _as_load(t):
    t = copy.deepcopy(t)
    for x in ast.walk(t):
        if hasattr(x, 'ctx'):
            x.ctx = ast.Load()
    return t


# ------------------------------------------------------------------ driver
def symbolic_args(mod, cls, name, shapes):
    """(receiver-and-argument values, Coq parameter groups)"""
    params = []          # list of (python-level shape, [coq names])
    vals = []
    letters = 'abcd'
    li = 0

    def inst(c):
        nonlocal li
        names = ['%s%d' % (letters[li], i) for i in range(SIZES[c])]
        li += 1
        params.append((c, names))
        return Tup(c, [Sym(('var', x)) for x in names])

    recv = None
    if cls is not None and name != '__call__':
        if mod.kind(cls, name) in ('method', 'property'):
            recv = inst(cls)
    f = mod.funcs[name] if cls is None else (
        mod.classes[cls]['__new__'] if name == '__call__' else mod.classes[cls][name])
    pnames = [a.arg for a in f.args.args]
    if cls is not None and (name == '__call__' or
                            mod.kind(cls, name) in ('method', 'property', 'classmethod')):
        pnames = pnames[1:]
    for i, sh in enumerate(shapes):
        if sh == 's':
            pn = 's_' + (pnames[i] if i < len(pnames) else 'arg%d' % i)
            params.append(('s', [pn]))
            vals.append(Sym(('var', pn)))
        elif isinstance(sh, tuple) and sh[0] == 'c':
            vals.append(None if sh[1] is None else Num(sh[1], isinstance(sh[1], int)))
        else:
            vals.append(inst(sh))
    return recv, vals, params


def run_target(mod, key, cls, name, shapes):
    recv, vals, params = symbolic_args(mod, cls, name, shapes)

    def once(decisions):
        r = Run(mod, decisions)
        a = copy.deepcopy(vals)
        rv = copy.deepcopy(recv)
        try:
            if cls is None:
                out = r.call_function(mod.funcs[name], a, {}, None)
            elif name == '__call__':
                out = r.construct(cls, a, {})
            elif mod.kind(cls, name) == 'property':
                out = r.call_function(mod.classes[cls][name], [rv], {}, cls)
            else:
                out = r.call_method(cls, name, rv, a)
        except (_Break, _Continue):
            raise Unsupported('break/continue outside a loop')
        except RecursionError:
            raise Unsupported('recursion')
        return out, r.warned, r.pre

    def drive(decisions):
        try:
            return once(decisions)
        except Fork as f:
            a, wa, pa = drive(decisions + (True,))
            b, wb, pb = drive(decisions + (False,))
            c = f.cond
            return merge(c, a, b), merge(c, wa, wb), merge(c, pa, pb)

    out, warned, pre = drive(())
    if out is None:
        raise Unsupported('returns None')
    if isinstance(out, Tup):
        if out.cls not in SIZES and len(out.items) not in VTYPE:
            raise Unsupported('returns a %s of %d entries' % (out.cls, len(out.items)))
        if not all(is_scalar(x) for x in out.items):
            raise Unsupported('returns a tuple whose entries are not numbers')
    elif not is_scalar(out):
        raise Unsupported('returns %s' % type(out).__name__)
    return params, out, warned, pre


# ---------------------------------------------------------------- printing
def pz(n):
    return str(n) if n >= 0 else '(%d)' % n


BOOL_TAGS = ('true', 'false', 'ltb', 'eqb', 'negb', 'andb', 'orb')


def pe(e, names=None):
    """print an expression; `names` maps shared subtrees to let-bound names"""
    if names and e in names:
        return names[e]
    return _pe(e, names)


def _pe(e, names):
    t = e[0]
    r = lambda x: pe(x, names)
    if t == 'var':
        return e[1]
    if t == 'lit':
        v = e[1]
        if v.denominator == 1:
            return '(gofZ %s)' % pz(v.numerator)
        return '((gofZ %s) / (gofZ %s))' % (pz(v.numerator), pz(v.denominator))
    if t in ('add', 'sub', 'mul', 'div'):
        return '(%s %s %s)' % (r(e[1]), {'add': '+', 'sub': '-', 'mul': '*', 'div': '/'}[t],
                               r(e[2]))
    if t == 'opp':
        return '(- %s)' % r(e[1])
    if t in ('sqrt', 'cos', 'sin', 'tan', 'radians'):
        return '(g%s %s)' % (t, r(e[1]))
    if t == 'pi':
        return 'gpi'
    if t == 'round':
        return '(ground %s %s)' % (r(e[1]), pz(e[2]))
    if t == 'atan2':
        return '(gatan2 %s %s)' % (r(e[1]), r(e[2]))
    if t == 'ite':
        return '(if %s then %s else %s)' % (r(e[1]), r(e[2]), r(e[3]))
    if t in ('true', 'false'):
        return t
    if t in ('ltb', 'eqb'):
        return '(g%s %s %s)' % (t, r(e[1]), r(e[2]))
    if t == 'negb':
        return '(negb %s)' % r(e[1])
    if t in ('andb', 'orb'):
        return '(%s %s %s)' % (t, r(e[1]), r(e[2]))
    raise Unsupported('internal: expression tag %s' % t)


pb = pe


def with_lets(e):
    """Coq text of e in which every compound subexpression that occurs more
    than once is bound by a `let` (cosmetic: the term is the same after zeta)"""
    count, size, order = {}, {}, []

    def walk(x):
        if x[0] in ('var', 'lit', 'true', 'false', 'pi'):
            size[x] = 1
            return
        if x in count:
            count[x] += 1
            return
        count[x] = 1
        n = 1
        for y in x[1:]:
            if isinstance(y, tuple):
                walk(y)
                n += size[y]
        size[x] = n
        order.append(x)                 # children before parents

    walk(e)
    names, lets = {}, []
    for x in order:
        if count[x] >= 2 and size[x] >= 4:
            nm = 't%d' % (len(names) + 1)
            lets.append('let %s := %s in' % (nm, _pe(x, names)))
            names[x] = nm
    return ' '.join(lets + [pe(e, names)])


def coq_name(key):
    n = key.replace('.', '_').replace('/', '_')
    n = n.replace('____', '_').replace('___', '_')
    while '__' in n:
        n = n.replace('__', '_')
    return n.strip('_')


def wrap(s, indent='    ', width=96):
    """break a long expression at spaces (purely cosmetic)"""
    out, line = [], ''
    for w in s.split(' '):
        if line and len(line) + 1 + len(w) > width:
            out.append(line)
            line = indent + w
        else:
            line = w if not line else line + ' ' + w
    out.append(line)
    return '\n'.join(x for x in out if x.strip())


HEADER = '''(* GENERATED by harness/pymath2coq.py from desper/math.py -- DO NOT EDIT.
   Regenerated (and recompiled when the text changed) by every ./check C18.

   One definition per translated method and output entry (<name>_<k>; <name>_s
   for a number), each a closed expression in the entries of the arguments
   (a0.. = receiver, b0.. = next tuple argument, s_<name> = number argument),
   plus <name> on tuples, <name>_warn ("warnings.warn was called") and the
   table [gen_table] used for evaluation.  Written over the signature of
   Math/Sig.v; Python constructs are rendered as follows:
     x ** n -> products;  if d: -> if negb (geqb d 0);  a > b -> gltb b a;
     a >= b -> negb (gltb a b);  max(a, b) -> if gltb a b then b else a;
     min(a, b) -> if gltb b a then b else a;  abs(x) -> if gltb x 0 then - x else x;
     sum(...) -> 0 + x0 + x1 ...;  float and int literals -> exact rationals;
     round(x, n) -> ground x n;  an assert on the data -> <name>_pre (the
     definitions describe the result when it holds; Python raises otherwise). *)
From Coq Require Import ZArith List String Bool.
From Desper Require Import Math.Sig.
Import ListNotations.
Local Open Scope G_scope.
Local Open Scope string_scope.

'''


def tuple_pat(names):
    return '(' + ', '.join(names) + ')'


def emit(mod, refused):
    """Coq text for all targets; `refused` collects (key, reason)."""
    lines = [HEADER]
    table = []
    names = []
    for key, cls, name, shapes in TARGETS:
        cn = coq_name(key)
        try:
            params, out, warned, pre = run_target(mod, key, cls, name, shapes)
            flat = [x for _, ns in params for x in ns]
            binder = ' (%s : T)' % ' '.join(flat) if flat else ''
            head = '{T : Type} {O : ops T}' + binder
            items = out.items if isinstance(out, Tup) else [out]
            ents = []
            body = []
            for k, it in enumerate(items):
                en = '%s_%d' % (cn, k) if isinstance(out, Tup) else cn + '_s'
                ents.append(en)
                body.append(wrap('Definition %s %s : T :=\n  %s.' % (en, head, with_lets(expr_of(it)))))
            has_warn = warned is not False
            has_pre = pre is not True
            wn = cn + '_warn'
            if has_pre:
                body.append(wrap('Definition %s_pre %s : bool :=\n  %s.' % (
                    cn, head, with_lets(bexpr_of(pre)))))
            if has_warn:
                body.append(wrap('Definition %s %s : bool :=\n  %s.' % (
                    wn, head, with_lets(bexpr_of(warned)))))
            # the method on tuples
            tb, lets, targs = [], [], []
            for i, (sh, ns) in enumerate(params):
                if sh == 's':
                    tb.append('(%s : T)' % ns[0])
                    targs.append(ns[0])
                else:
                    v = 'abcd'[len([1 for s, _ in params[:i] if s != 's'])]
                    tb.append('(%s : %s T)' % (v, VTYPE[len(ns)]))
                    lets.append("let '%s := %s in" % (tuple_pat(ns), v))
                    targs.append(tuple_pat(ns))
            call = lambda f: ('@%s T O' % f) + ''.join(' ' + x for x in flat)
            tcall = lambda f: ('@%s T O' % f) + ''.join(' ' + x for x in targs)
            if isinstance(out, Tup):
                res = '(' + ', '.join(call(e) for e in ents) + ')'
                rty = VTYPE[len(items)] + ' T'
                lst_out = 'l%d (%s)' % (len(items), tcall(cn))
            else:
                res = call(ents[0])
                rty = 'T'
                lst_out = '[%s]' % tcall(cn)
            body.append(wrap('Definition %s {T : Type} {O : ops T} %s : %s :=\n  %s %s.' % (
                cn, ' '.join(tb), rty, ' '.join(lets), res)))
            if has_warn:
                body.append(wrap('Definition %s_w {T : Type} {O : ops T} %s : bool :=\n  %s %s.'
                                 % (cn, ' '.join(tb), ' '.join(lets), call(wn))))
            if has_pre:
                body.append(wrap('Definition %s_p {T : Type} {O : ops T} %s : bool :=\n  %s %s.'
                                 % (cn, ' '.join(tb), ' '.join(lets), call(cn + '_pre'))))
            lines.append('(* %s%s *)\n' % (key, ''.join(
                ' ' + (s if isinstance(s, str) else repr(s[1])) for s in shapes)))
            lines.append('\n'.join(body) + '\n\n')
            some = 'Some (%s, %s)' % (lst_out, tcall(cn + '_w') if has_warn else 'false')
            if has_pre:
                some = 'if %s then %s else None' % (tcall(cn + '_p'), some)
            table.append(wrap('  ("%s", fun xs => match xs with | [%s] => %s '
                              '| _ => None end)' % (key, '; '.join(flat), some), '      '))
            names += ents + [cn]
        except Unsupported as ex:
            refused.append((key, str(ex)))
            lines.append('(* %s: REFUSED by the translator: %s *)\n' % (key, ex))
            lines.append('Definition %s_refused : True := translator_refused_%s.\n\n' % (cn, cn))
    lines.append('Definition gen_table {T : Type} {O : ops T} : list (string * gen_fun T) := [\n')
    lines.append(';\n'.join(table))
    lines.append('\n].\n\n')
    lines.append('Definition gen_names : list string := [%s].\n' % '; '.join(
        '"%s"' % k for k, _, _, _ in TARGETS))
    return ''.join(lines)


def translate(src_path):
    """-> (Coq text, info dict).  Never raises for unsupported source: the
    refused methods make the generated file uncompilable (fail closed)."""
    source = open(src_path).read()
    info = dict(source=src_path, sha256=hashlib.sha256(source.encode()).hexdigest(),
                targets=len(TARGETS))
    refused = []
    try:
        mod = Module(source)
        text = emit(mod, refused)
    except SyntaxError as ex:
        refused.append(('<module>', 'syntax error: %s' % ex))
        text = HEADER + 'Definition module_refused : True := translator_refused_module.\n'
    except KeyError as ex:
        refused.append(('<module>', 'missing class or function %s' % ex))
        text = HEADER + 'Definition module_refused : True := translator_refused_module.\n'
    info['refused'] = refused
    info['translated'] = len(TARGETS) - len(refused)
    info['definitions'] = text.count('\nDefinition ')
    info['text_sha256'] = hashlib.sha256(text.encode()).hexdigest()
    return text, info


def out_path():
    from harness import core
    return os.path.join(core.COQ, 'theories', 'Math', 'MathGen.v')


def write_if_changed(path, text):
    old = open(path).read() if os.path.exists(path) else None
    if old == text:
        return False
    tmp = path + '.tmp%d' % os.getpid()
    with open(tmp, 'w') as f:
        f.write(text)
    os.replace(tmp, path)
    return True


def main(argv):
    from harness import core
    src = os.path.join(core.REPO, 'desper', 'math.py')
    text, info = translate(src)
    if '--stdout' in argv:
        sys.stdout.write(text)
    else:
        info['changed'] = write_if_changed(out_path(), text)
    for k, why in info['refused']:
        print('REFUSED %s: %s' % (k, why), file=sys.stderr)
    print({k: v for k, v in info.items() if k != 'refused'}, file=sys.stderr)
    return 1 if info['refused'] else 0


if __name__ == '__main__':
    sys.exit(main(sys.argv[1:]))
