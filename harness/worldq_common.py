"""Python side shared by C01 (World queries agree) and C06 (type queries over
all hierarchies): case generator, implementation runner, Coq encoder.

Coq side: coq/theories/World/QModel.v (types op / res / qobs / wcase, the
acceptor `accepts`, the spec machine `spec_step`, the input domain `wf_op`).
`spec_step` and `wf_op` are mirrored here (functions of the same names):
`run` executes an operation only if it is well-formed with respect to the
history observed so far, so that wf_b is true for every trace whatever the
implementation answers.

Case (plain JSON):
  H      class i lists its direct bases (indices < i); [] = under the fresh root
  kinds  per component class: plain / both / addonly / remonly / other
  pkinds the same for the processor classes (same hierarchy shape)
  pool   entity ids the per-entity queries are asked about (plus 50 and -51)
  ops    [create, eid|null, [[u,c]..]] [add,e,u,c] [remove,e,T] [delete,e,imm]
         [process] [clear] [enable,b] [addproc,u,p] [rmproc,T]
  qseed, nq, full    sampling of the queries asked after every operation
Entity ids: e >= 0 is the Python int; negative odd -> 's<e>', even -> ('t', e).
Component / processor ids name instances created on first use.
"""
import random

from harness.core import z, b, lst

KINDS = ['plain', 'both', 'addonly', 'remonly', 'other']
NEVER = [50, -51]            # ids no operation ever uses
UNKNOWN_OBJ = -999
UNKNOWN_ENT = -99999
COQ_MODULE = 'Desper.World.QModel'
CASE_TIMEOUT = 5

TRUSTED = [
    'Coq 8.16.1 kernel + vm_compute (evaluation of the verdict on the observed traces)',
    'hand-written model World/QModel.v (+ QHier.v, QLib.v) tied to /repo by this '
    'correspondence run (sampled, not exhaustive)',
    'harness doubles: classes built with type() per case under a fresh root / a fresh '
    'Processor subclass, instances identified with id() while kept alive, entity ids '
    'mapped to integers (negative = non-int hashables)',
    'harness mirror of wf_op / spec_step (worldq_common.py) used only to decide which '
    'generated operations are executed; wf_b is re-evaluated by Coq on every trace',
    'CPython type.__subclasses__() returns direct subclasses in creation order',
]
ASSUMPTIONS = [
    'input domain wf_b: one instance is attached in at most one slot (K3), create_entity is '
    'not given an occupied slot of an explicit id (K2), two components of one call have '
    'different types, a deferred delete names an entity that owns a component',
    'event handlers of components / processors do not touch the world (lifecycle '
    'callbacks are C02)',
]


# ----------------------------------------------------------------- hierarchy
def ancestors(H):
    """anc[u] = set of t with issubclass(u, t) (reflexive)."""
    anc = []
    for i, bs in enumerate(H):
        s = {i}
        for x in bs:
            s |= anc[x]
        anc.append(s)
    return anc


def subclasses(H):
    """subs[t] = t.__subclasses__() (creation order)."""
    return [[i for i in range(len(H)) if t in H[i]] for t in range(len(H))]


def npaths(H):
    """paths[u][t] = number of inheritance paths from u up to t."""
    n = len(H)
    paths = [[0] * n for _ in range(n)]
    for u in range(n):
        paths[u][u] = 1
        for x in H[u]:
            for t in range(n):
                paths[u][t] += paths[x][t]
    return paths


def has_diamond(H):
    p = npaths(H)
    return any(v >= 2 for row in p for v in row)


def python_accepts(H):
    """Index of the first class Python refuses (MRO), or None."""
    root = type('GRoot', (), {})
    cls = []
    for i, bs in enumerate(H):
        try:
            if any(not (0 <= x < i) for x in bs) or len(set(bs)) != len(bs):
                return i
            cls.append(type('G%d' % i, tuple(cls[x] for x in bs) or (root,), {}))
        except TypeError:
            return i
    return None


def gen_H(rng, n, force):
    """Random DAG accepted by Python; `force` embeds a diamond (n >= 4) or a
    two-base class (n == 3)."""
    forced = {}
    if force and n >= 4:
        a, b_, c, d = sorted(rng.sample(range(n), 4))
        forced = {b_: [a], c: [a], d: rng.sample([b_, c], 2)}
    elif force and n == 3:
        forced = {2: rng.sample([0, 1], 2)}
    H = []
    for i in range(n):
        ok = False
        for attempt in range(10):
            if i in forced and attempt == 0:
                bs = list(forced[i])
            else:
                r = rng.random()
                k = 0 if r < 0.25 else 1 if r < 0.6 else 2 if r < 0.92 else 3
                k = min(k, i)
                bs = rng.sample(range(i), k)
            if python_accepts(H + [bs]) is None:
                ok = True
                break
        if not ok:
            bs = [rng.randrange(i)] if i else []
        H.append(bs)
    return H


# ------------------------------------------- mirror of QModel.spec / wf_op
# spec state: (att, pend, sprocs); att = list of (e, u, c), sprocs = list of (u, p)
def spec_init():
    return ([], [], [])


def _owns(att, e):
    return any(x[0] == e for x in att)


def _ok_single(anc, cands, T, r):
    if r is None:
        return not any(T in anc[u] for u, _ in cands)
    return (any(c == r and T in anc[u] for u, c in cands)
            and all(c == r for u, c in cands if u == T))


def spec_step(anc, t, o, r):
    """QModel.spec_step; o in case form (or ['nop']), r the observed result."""
    att, pend, sprocs = t
    k = o[0]
    if k == 'create' and r[0] == 'id':
        rid = r[1]
        good = (rid == o[1]) if o[1] is not None else not _owns(att, rid)
        if not good:
            return None
        return (att + [(rid, u, c) for u, c in o[2]], pend, sprocs)
    if k == 'add' and r[0] == 'unit':
        e, u, c = o[1], o[2], o[3]
        return ([x for x in att if not (x[0] == e and x[1] == u)] + [(e, u, c)],
                pend, sprocs)
    if k == 'remove' and r[0] == 'obj':
        e, T, c = o[1], o[2], r[1]
        if not _ok_single(anc, [(x[1], x[2]) for x in att if x[0] == e], T, c):
            return None
        if c is None:
            return t
        a = [x for x in att if not (x[0] == e and x[2] == c)]
        return (a, pend if _owns(a, e) else [y for y in pend if y != e], sprocs)
    if k == 'delete' and o[2]:
        e = o[1]
        if r[0] == 'unit':
            return ([x for x in att if x[0] != e], [y for y in pend if y != e], sprocs)
        if r[0] == 'err':
            return None if _owns(att, e) else t
        return None
    if k == 'delete' and not o[2] and r[0] == 'unit':
        e = o[1]
        return (att, pend if e in pend else pend + [e], sprocs)
    if k == 'process' and r[0] == 'unit':
        return ([x for x in att if x[0] not in pend], [], sprocs)
    if k == 'clear' and r[0] == 'unit':
        return ([], [], [])
    if k in ('enable', 'probe') and r[0] == 'unit':
        return t
    if k == 'addproc' and r[0] == 'unit':
        u, p = o[1], o[2]
        return (att, pend, [x for x in sprocs if x[0] != u] + [(u, p)])
    if k == 'rmproc' and r[0] == 'obj':
        T, p = o[1], r[1]
        if not _ok_single(anc, sprocs, T, p):
            return None
        if p is None:
            return t
        return (att, pend, [x for x in sprocs if x[1] != p])
    if k == 'nop' and r[0] == 'unit':
        return t
    return None


def wf_op(t, o):
    """QModel.wf_op."""
    att, pend, sprocs = t
    k = o[0]
    if k == 'create':
        eo, cs = o[1], o[2]
        us = [u for u, _ in cs]
        ids = [c for _, c in cs]
        if len(set(us)) != len(us) or len(set(ids)) != len(ids):
            return False
        if any(x[2] == c for x in att for c in ids):
            return False
        if eo is not None and any(x[0] == eo and x[1] in us for x in att):
            return False
        return True
    if k == 'add':
        e, u, c = o[1], o[2], o[3]
        return all(x[2] != c or (x[0] == e and x[1] == u) for x in att)
    if k == 'delete' and not o[2]:
        return _owns(att, o[1])
    if k == 'addproc':
        u, p = o[1], o[2]
        return all(x[1] != p or x[0] == u for x in sprocs)
    return True


# ------------------------------------------------------------ running a case
def real(e, idmode='int'):
    """The Python entity id the integer e of the case stands for.

    e >= 0: the e-th value of the world's id generator family (mode 'int':
    count(1) and the int itself; 'str': a factory yielding 'g1', 'g2', ...
    and 'g<e>'; 'offset': count(5) and e + 4), so that the model's automatic
    ids count(1) are in bijection with the implementation's.  e < 0: some
    other hashable (tuple, string, frozenset, negative int, nested tuple)."""
    if e >= 0:
        return 'g%d' % e if idmode == 'str' else e + 4 if idmode == 'offset' else e
    m = (-e) % 5
    if m == 0:
        return ('t', e)
    if m == 1:
        return 's%d' % e
    if m == 2:
        return frozenset((e, 's'))
    if m == 3:
        return e
    return (e, ('n', None))


def snapshot(ncls, pool):
    qs = []
    for T in range(ncls + 1):       # ncls = a class outside the hierarchy
        qs.append(['get', T])
        qs.append(['gp', T])
    qs.append(['ents'])
    seen = []
    for e in list(pool) + NEVER:
        if e in seen:
            continue
        seen.append(e)
        qs.append(['gcs', e])
        qs.append(['ex', e])
        for T in range(ncls + 1):
            qs.append(['has', e, T])
            qs.append(['gc', e, T])
    return qs


def _shape_ok(o, n):
    """Is `o` an operation of the case format over n classes?"""
    try:
        k = o[0]
        isint = lambda v: isinstance(v, int) and not isinstance(v, bool)
        cl = lambda v: isint(v) and 0 <= v < n
        if k == 'create':
            return ((o[1] is None or isint(o[1]))
                    and all(cl(u) and isint(c) for u, c in o[2]))
        if k == 'add':
            return isint(o[1]) and cl(o[2]) and isint(o[3])
        if k == 'remove':
            return isint(o[1]) and (cl(o[2]) or o[2] == n)
        if k == 'delete':
            return isint(o[1]) and isinstance(o[2], bool)
        if k in ('process', 'clear', 'probe'):
            return True
        if k == 'enable':
            return isinstance(o[1], bool)
        if k == 'addproc':
            return cl(o[1]) and isint(o[2])
        if k == 'rmproc':
            return cl(o[1]) or o[1] == n
    except Exception:
        pass
    return False


def run(case):
    import desper

    H, kinds, pkinds = case['H'], case['kinds'], case['pkinds']
    n = len(H)
    if python_accepts(H) is not None or len(kinds) != n or len(pkinds) != n:
        return {'bad': 'hierarchy not realisable in Python'}

    # Lifecycle and probe callbacks re-enter the world with read-only queries
    # (seeded choice; results discarded: queries do not change the model
    # state).  A query that raises inside a callback is recorded as QErr; the
    # types asked through get() are asked again right after the operation.
    cb = {'rng': random.Random(int(case.get('qseed', 0)) * 131 + 7), 'err': False,
          'types': [], 'world': None, 'ready': False, 'calls': 0}

    def reenter(world=None):
        world = world if world is not None else cb['world']
        if world is None or not cb['ready']:
            return
        cb['calls'] += 1
        r = cb['rng']
        try:
            for _ in range(r.randint(1, 3)):
                x = r.random()
                T = r.randrange(len(cls)) if cls and r.random() < 0.93 else n
                e = real_(r.choice(list(case['pool']) + NEVER))
                if x < 0.55:
                    cb['types'].append(T)
                    world.get(C(T))
                elif x < 0.63:
                    world.get_component(e, C(T), cb)
                elif x < 0.71:
                    world.has_component(e, C(T))
                elif x < 0.79:
                    world.get_components(e)
                elif x < 0.86:
                    world.entities
                elif x < 0.92:
                    world.entity_exists(e)
                elif x < 0.96:
                    world.processors
                else:
                    world.get_processor(PC(T))
        except Exception:
            cb['err'] = True

    def on_event(self, *a):
        # components are told (entity, world); processors nothing
        reenter(a[1] if len(a) >= 2 else getattr(self, 'world', None))

    def namespace(kind):
        ns = {}
        if kind in ('both', 'addonly'):
            ns['on_add'] = on_event
        if kind in ('both', 'remonly'):
            ns['on_remove'] = on_event
        if kind == 'other':
            ns['probe'] = lambda self, *a: reenter()
        return ns

    events = {'both': ('on_add', 'on_remove'), 'addonly': ('on_add',),
              'remonly': ('on_remove',), 'other': ('probe',)}

    def make_one(prefix, bases_root, flavours, out):
        i = len(out)
        c = type('%s%d' % (prefix, i), tuple(out[x] for x in H[i]) or (bases_root,),
                 namespace(flavours[i]))
        if flavours[i] in events:
            desper.event_handler(*events[flavours[i]])(c)
        out.append(c)

    # Value flavours of the instances.  The model never looks at a component
    # or processor as a value, so the doubles are as hostile as Python allows:
    # ~35 % of the instances are falsy (through __bool__, or through __len__
    # == 0 when the case's root has no __bool__), ~20 % have an __eq__ that
    # always answers True / always False (identity hash).  The harness itself
    # only ever uses `is` / id() on them.
    qseed = int(case.get('qseed', 0))
    use_len = random.Random(qseed * 31 + 5).random() < 0.3

    def value_ns():
        def _eq(self, other):
            m = self.__dict__.get('_wq_eq', 0)
            return True if m == 1 else False if m == 2 else self is other

        def _ne(self, other):
            m = self.__dict__.get('_wq_eq', 0)
            return False if m == 1 else True if m == 2 else self is not other
        ns = {'__eq__': _eq, '__ne__': _ne, '__hash__': object.__hash__}
        if use_len:
            ns['__len__'] = lambda self: 0 if self.__dict__.get('_wq_falsy') else 1
        else:
            ns['__bool__'] = lambda self: not self.__dict__.get('_wq_falsy')
        return ns

    def flavour(obj, salt, n):
        r = random.Random(qseed * 7919 + salt * 104729 + n)
        obj.__dict__['_wq_falsy'] = r.random() < 0.35
        x = r.random()
        obj.__dict__['_wq_eq'] = 1 if x < 0.1 else 2 if x < 0.2 else 0
        return obj

    root = type('Root', (), value_ns())
    pns = value_ns()
    pns['process'] = lambda self, dt=1: None
    proot = type('PRoot', (desper.Processor,), pns)
    class _FalsyDefault:
        __bool__ = lambda self: False
    # get_component's default: None, a sentinel, falsy values; never a component
    defaults = [None, object(), object(), 0, '', _FalsyDefault()]
    dflt_rng = random.Random(qseed * 23 + 11)
    # Classes from index `lazy` on are defined only when an operation first
    # needs them (subclasses appearing after queries on their ancestors).
    cls, pcls = [], []
    alien = type('Alien', (), {})                       # outside the hierarchy
    palien = type('PAlien', (desper.Processor,), {'process': lambda self, dt=1: None})

    def ensure(u):
        while len(cls) <= u:
            make_one('K', root, kinds, cls)
            make_one('P', proot, pkinds, pcls)

    def C(T):
        return alien if T == n else cls[T]

    def PC(T):
        return palien if T == n else pcls[T]

    lazy = case.get('lazy')
    if n:
        ensure((lazy - 1) if isinstance(lazy, int) and 1 <= lazy < n else n - 1)

    idmode = case.get('idmode', 'int')
    if idmode not in ('int', 'str', 'offset'):
        idmode = 'int'
    alias = random.Random(qseed * 17 + 3)

    def real_(e):
        # True == 1 and False == 0 are the SAME entity ids
        if idmode == 'int' and e in (0, 1) and alias.random() < 0.3:
            return bool(e)
        return real(e, idmode)

    ops = case['ops']
    pool = case['pool']
    back = {}                   # Python entity id -> integer of the case
    for e in list(pool) + NEVER + [o[1] for o in ops
                                   if o[0] in ('create', 'add', 'remove', 'delete')
                                   and isinstance(o[1], int)]:
        if e < 0:
            back[real(e)] = e

    def ent(x):
        if isinstance(x, bool):
            x = int(x)
        if isinstance(x, int) and x >= 0:
            if idmode == 'int':
                return x
            return x - 4 if idmode == 'offset' and x >= 4 else UNKNOWN_ENT
        if idmode == 'str' and isinstance(x, str) and x[:1] == 'g' and x[1:].isdigit():
            return int(x[1:])
        try:
            return back.get(x, UNKNOWN_ENT)
        except TypeError:
            return UNKNOWN_ENT

    comp, ctype, comp_id = {}, {}, {}       # cid -> object, cid -> class, id(obj) -> cid
    proc, ptype, proc_id = {}, {}, {}

    def cobj(u, c):
        if c not in comp:
            comp[c] = flavour(cls[u](), 1, c)
            ctype[c] = u
            comp_id[id(comp[c])] = c
        return comp[c]

    def pobj(u, p):
        if p not in proc:
            proc[p] = flavour(pcls[u](), 2, p)
            ptype[p] = u
            proc_id[id(proc[p])] = p
        return proc[p]

    def cid(x):
        return None if x is None else comp_id.get(id(x), UNKNOWN_OBJ)

    def pid(x):
        return None if x is None else proc_id.get(id(x), UNKNOWN_OBJ)

    from itertools import count
    if idmode == 'str':
        w = desper.World(lambda: ('g%d' % i for i in count(1)))
    elif idmode == 'offset':
        w = desper.World(lambda: count(5))
    elif alias.random() < 0.3:
        w = desper.World(id_generator_factory=lambda: count(1))
    else:
        w = desper.World()
    cb['world'] = w
    cb['ready'] = True

    def execute(o):
        k = o[0]
        try:
            if k == 'create':
                objs = [cobj(u, c) for u, c in o[2]]
                if o[1] is None:
                    rid = w.create_entity(*objs)
                else:
                    rid = w.create_entity(*objs, entity_id=real_(o[1]))
                rid = ent(rid)
                return ['err', 0] if rid == UNKNOWN_ENT else ['id', rid]
            if k == 'add':
                w.add_component(real_(o[1]), cobj(o[2], o[3]))
            elif k == 'remove':
                return ['obj', cid(w.remove_component(real_(o[1]), C(o[2])))]
            elif k == 'delete':
                w.delete_entity(real_(o[1]), immediate=o[2])
            elif k == 'process':
                w.process(1)
            elif k == 'clear':
                w.clear()
            elif k == 'enable':
                w.dispatch_enabled = o[1]
            elif k == 'probe':
                w.dispatch('probe')
            elif k == 'addproc':
                w.add_processor(pobj(o[1], o[2]))
            elif k == 'rmproc':
                return ['obj', pid(w.remove_processor(PC(o[1])))]
            return ['unit']
        except KeyError:
            return ['err', 1]
        except AssertionError:
            return ['err', 2]
        except Exception:
            return ['err', 0]

    def ask(q):
        k = q[0]
        try:
            if k == 'get':
                return ['get', q[1], [[ent(e), cid(c)] for e, c in w.get(C(q[1]))]]
            if k == 'gp':
                return ['gp', q[1], pid(w.get_processor(PC(q[1])))]
            if k == 'ents':
                return ['ents', [ent(e) for e in w.entities]]
            if k == 'gcs':
                return ['gcs', q[1], [cid(c) for c in w.get_components(real_(q[1]))]]
            if k == 'ex':
                r = w.entity_exists(real_(q[1]))
                return ['ex', q[1], r] if isinstance(r, bool) else ['err']
            if k == 'has':
                r = w.has_component(real_(q[1]), C(q[2]))
                return ['has', q[1], q[2], r] if isinstance(r, bool) else ['err']
            if k == 'gc':
                dflt = dflt_rng.choice(defaults)
                if dflt is None and dflt_rng.random() < 0.5:
                    r = w.get_component(real_(q[1]), C(q[2]))
                else:
                    r = w.get_component(real_(q[1]), C(q[2]), dflt)
                return ['gc', q[1], q[2], None if r is dflt else
                        UNKNOWN_OBJ if r is None else cid(r)]
        except Exception:
            pass
        return ['err']

    def consistent(o):
        """A cid / pid always names an instance of the same class."""
        if o[0] == 'create':
            return all(ctype.get(c, u) == u for u, c in o[2])
        if o[0] == 'add':
            return ctype.get(o[3], o[2]) == o[2]
        if o[0] == 'addproc':
            return ptype.get(o[2], o[1]) == o[1]
        return True

    full = snapshot(n, pool)
    nq = case.get('nq', 6)
    qseed = case.get('qseed', 0)
    every = bool(case.get('full'))
    anc = ancestors(H)
    spec = spec_init()
    obs = []
    def qtype(q):
        return q[1] if q[0] in ('get', 'gp') else q[2] if q[0] in ('has', 'gc') else None

    def askable(q):
        """Queries by a class that is not defined yet cannot be asked."""
        T = qtype(q)
        return T is None or T == n or T < len(cls)

    def needed(o):
        ts = ([u for u, _ in o[2]] if o[0] == 'create' else
              [o[2]] if o[0] in ('add', 'remove') else
              [o[1]] if o[0] in ('addproc', 'rmproc') else [])
        ts = [t for t in ts if t < n]
        return max(ts) if ts else -1

    if not ops:
        ensure(n - 1) if n else None
        return {'obs': [{'res': ['unit'], 'skip': True, 'q': [ask(q) for q in full]}]}
    late = 0
    for i, o in enumerate(ops):
        skip = (not _shape_ok(o, n) or not consistent(o)
                or (spec is not None and not wf_op(spec, o)))
        primed = []
        if not skip and needed(o) >= len(cls):
            # the classes about to be defined: first query their existing
            # ancestors (state after the previous operation) ...
            new = range(len(cls), needed(o) + 1)
            primed = sorted({t for u in new for t in anc[u] if t < len(cls)})
            before = [ask([k, T]) for T in primed for k in ('get', 'gp')]
            if obs:
                obs[-1]['q'] += before
            late += len(new)
            ensure(needed(o))
        cb['err'], cb['types'] = False, []
        res = ['unit'] if skip else execute(o)
        cb_err, cb_types = cb['err'], sorted(set(cb['types']))
        if spec is not None:
            spec = spec_step(anc, spec, ['nop'] if skip else o, res)
        last = i == len(ops) - 1
        if last:
            ensure(n - 1) if n else None
        if every or last:
            qs = [q for q in full if askable(q)]
        else:
            qs = random.Random(qseed * 1000 + i).sample(full, min(nq, len(full)))
            qs = [q for q in qs if askable(q)]
        answers = [ask(q) for q in qs]
        if not (every or last):
            # ... and again now that an instance may be attached
            answers += [ask(['get', T]) for T in sorted(set(cb_types[:4]) | set(primed))]
            answers += [ask(['gp', T]) for T in primed]
        if cb_err:
            answers.append(['err'])
        obs.append({'res': res, 'skip': skip, 'q': answers})
    return {'obs': obs, 'callbacks': cb['calls'], 'late_classes': late}


# ------------------------------------------------------------------ encoding
def nat(k):
    return '%d%%nat' % k


def zo(x):
    return 'None' if x is None else '(Some %s)' % z(x)


def enc_op(o):
    k = o[0]
    if k == 'create':
        return '(OCreate %s %s)' % (zo(o[1]), lst(['(%s,%s)' % (nat(u), z(c))
                                                   for u, c in o[2]]))
    if k == 'add':
        return '(OAdd %s %s %s)' % (z(o[1]), nat(o[2]), z(o[3]))
    if k == 'remove':
        return '(ORemove %s %s)' % (z(o[1]), nat(o[2]))
    if k == 'delete':
        return '(ODelete %s %s)' % (z(o[1]), b(o[2]))
    if k == 'process':
        return 'OProcess'
    if k == 'clear':
        return 'OClear'
    if k == 'enable':
        return '(OSetEnabled %s)' % b(o[1])
    if k == 'addproc':
        return '(OAddProc %s %s)' % (nat(o[1]), z(o[2]))
    if k == 'rmproc':
        return '(ORemoveProc %s)' % nat(o[1])
    return 'ONop'


def enc_res(r):
    if r[0] == 'unit':
        return 'RUnit'
    if r[0] == 'id':
        return '(RId %s)' % z(r[1])
    if r[0] == 'obj':
        return '(RObj %s)' % zo(r[1])
    return '(RErr %s)' % z(r[1])


def enc_q(q):
    k = q[0]
    if k == 'get':
        return 'QGet %s %s' % (nat(q[1]), lst(['(%s,%s)' % (z(e), z(c)) for e, c in q[2]]))
    if k == 'gc':
        return 'QGetComponent %s %s %s' % (z(q[1]), nat(q[2]), zo(q[3]))
    if k == 'gcs':
        return 'QGetComponents %s %s' % (z(q[1]), lst([z(c) for c in q[2]]))
    if k == 'has':
        return 'QHas %s %s %s' % (z(q[1]), nat(q[2]), b(q[3]))
    if k == 'ents':
        return 'QEntities %s' % lst([z(e) for e in q[1]])
    if k == 'ex':
        return 'QExists %s %s' % (z(q[1]), b(q[2]))
    if k == 'gp':
        return 'QGetProc %s %s' % (nat(q[1]), zo(q[2]))
    return 'QErr'


REJECTED = '{| c_H := []; c_trace := [(ONop, RErr 0, [])] |}'
ILLFORMED = '{| c_H := [[0%nat]]; c_trace := [] |}'


def encode(case, trace):
    if 'bad' in trace:                  # the case itself is not realisable
        return ILLFORMED
    if 'obs' not in trace:              # hang / crash: an unacceptable trace
        return REJECTED
    ops = case['ops'] or [['nop']]
    if len(ops) != len(trace['obs']):
        return REJECTED
    items = []
    for o, ob in zip(ops, trace['obs']):
        items.append('(%s,%s,%s)' % ('ONop' if ob.get('skip') else enc_op(o),
                                     enc_res(ob['res']),
                                     lst([enc_q(q) for q in ob['q']])))
    return '{| c_H := %s; c_trace := %s |}' % (
        lst([lst([nat(x) for x in bs]) for bs in case['H']]), lst(items))


# ----------------------------------------------------------------- generator
class Pred:
    """Predicted state of a correct World along the generated operations."""

    def __init__(self, H, pool, P):
        self.H, self.pool, self.P = H, pool, P
        self.n = len(H)
        self.anc = ancestors(H)
        self.subs = subclasses(H)
        self.desc = [sorted(u for u in range(self.n) if t in self.anc[u])
                     for t in range(self.n)]
        self.att = {}               # (e, u) -> c
        self.pend = set()
        self.sprocs = {}            # u -> p
        self.next_id = 1
        self.ctype, self.ptype = {}, {}
        self.ncid, self.npid = 10, 1
        self.n_future = 0

    # -- views
    def row(self, e):
        return {u: c for (x, u), c in self.att.items() if x == e}

    def live(self):
        return sorted({e for e, _ in self.att})

    def attached(self):
        return set(self.att.values())

    def free(self, u):
        at = self.attached()
        return [c for c, t in self.ctype.items() if t == u and c not in at]

    def walk(self, present, T):
        """The LIFO subclass walk with early return (get_component & co)."""
        fringe = [T]
        steps = 0
        while fringe and steps < 10000:
            steps += 1
            s = fringe.pop()
            if s in present:
                return s
            fringe += self.subs[s]
        return None

    # -- instances
    def fresh(self, u):
        c = self.ncid
        self.ncid += 1
        self.ctype[c] = u
        return c

    def inst(self, rng, u, reuse=0.1):
        fr = self.free(u)
        if fr and rng.random() < reuse:
            return rng.choice(fr)
        return self.fresh(u)

    def query_type(self, rng, u, modes):
        m = rng.choices(['exact', 'anc', 'unrel'], modes)[0]
        if m == 'anc':
            up = sorted(self.anc[u] - {u})
            if up:
                return rng.choice(up)
            return u
        if m == 'unrel':
            return rng.randrange(self.n)
        return u

    def pick_types(self, rng, k, allowed):
        """k distinct classes out of `allowed`, siblings preferred sometimes."""
        if rng.random() < self.P['p_sibs']:
            tops = [t for t in range(self.n)
                    if len([u for u in self.desc[t] if u in allowed]) >= 2]
            if tops:
                t = rng.choice(tops)
                cand = [u for u in self.desc[t] if u in allowed]
                return rng.sample(cand, min(k, len(cand)))
        allowed = list(allowed)
        return rng.sample(allowed, min(k, len(allowed)))

    # -- operations
    def make(self, kind, rng):
        P, n, pool = self.P, self.n, self.pool
        live = self.live()
        if kind in ('create', 'create_auto', 'create_future'):
            auto = kind == 'create_auto' or (kind == 'create' and rng.random() < P['p_auto'])
            k = rng.choices([0, 1, 2, 3], P['create_sizes'])[0]
            e = None
            allowed = list(range(n))
            if not auto:
                if (kind == 'create_future' or rng.random() < P['p_future']) \
                        and self.next_id < 40:
                    e = self.next_id + rng.randrange(3)
                    self.n_future += 1
                else:
                    e = rng.choice(pool)
                occ = self.row(e)
                allowed = [u for u in range(n) if u not in occ]
                if not allowed:
                    e = None
                    allowed = list(range(n))
            us = self.pick_types(rng, k, allowed)
            return ['create', e, [[u, self.inst(rng, u)] for u in us]]
        if kind in ('add', 'add_pend', 'replace_pend'):
            pl = sorted(self.pend & set(live))
            r = rng.random()
            if kind != 'add':
                if not pl:
                    return None
                e = rng.choice(pl)
            elif pl and r < 0.2:
                e = rng.choice(pl)
            elif live and r < 0.8:
                e = rng.choice(live)
            else:
                e = rng.choice(pool)
            row = self.row(e)
            replace = kind == 'replace_pend' or (kind == 'add' and rng.random() < P['p_replace'])
            if replace and row:
                u = rng.choice(sorted(row))
                if rng.random() < 0.08:
                    return ['add', e, u, row[u]]        # the same instance again
                return ['add', e, u, self.inst(rng, u)]
            if row and rng.random() < 0.5:
                # a relative (sibling / subtype / supertype) of something attached
                v = rng.choice(sorted(row))
                top = rng.choice(sorted(self.anc[v]))
                u = rng.choice(self.desc[top])
            else:
                u = rng.randrange(n)
            return ['add', e, u, self.inst(rng, u)]
        if kind in ('remove', 'remove_pend', 'remove_last'):
            if kind == 'remove_pend':
                pl = sorted(self.pend & set(live))
                if not pl:
                    return None
                e = rng.choice(pl)
            elif kind == 'remove_last':
                single = [x for x in live if len(self.row(x)) == 1]
                if not single:
                    return None
                e = rng.choice(single)
            elif live and rng.random() < 0.85:
                e = rng.choice(live)
            else:
                e = rng.choice(pool)
            row = self.row(e)
            if not row:
                if rng.random() < 0.6:
                    return None
                return ['remove', e, rng.randrange(n)]
            u = rng.choice(sorted(row))
            return ['remove', e, self.query_type(rng, u, P['rm_modes'])]
        if kind in ('delete', 'delete_def'):
            imm = kind == 'delete' and rng.random() < 0.4
            if not live:
                if rng.random() < 0.75:
                    return None
                imm = True
            if imm:
                gone = [x for x in pool if x not in live]
                if gone and (not live or rng.random() < 0.15):
                    return ['delete', rng.choice(gone), True]
                return ['delete', rng.choice(live), True]
            return ['delete', rng.choice(live), False]
        if kind == 'process':
            return ['process']
        if kind == 'clear':
            return ['clear']
        if kind == 'enable':
            return ['enable', rng.random() < 0.5]
        if kind == 'probe':
            return ['probe']
        if kind == 'addproc':
            if self.sprocs and rng.random() < 0.3:
                # a relative of an attached processor
                v = rng.choice(sorted(self.sprocs))
                top = rng.choice(sorted(self.anc[v]))
                u = rng.choice(self.desc[top])
            else:
                u = rng.randrange(n)
            if u in self.sprocs and rng.random() < 0.15:
                return ['addproc', u, self.sprocs[u]]       # the same instance again
            at = set(self.sprocs.values())
            fr = [p for p, t in self.ptype.items() if t == u and p not in at]
            if fr and rng.random() < 0.15:
                return ['addproc', u, rng.choice(fr)]
            p = self.npid
            self.npid += 1
            self.ptype[p] = u
            return ['addproc', u, p]
        if kind == 'rmproc':
            if not self.sprocs:
                if rng.random() < 0.75:
                    return None
                return ['rmproc', rng.randrange(n)]
            u = rng.choice(sorted(self.sprocs))
            return ['rmproc', self.query_type(rng, u, P['rm_modes'])]
        raise ValueError(kind)

    def drop(self, e, u):
        del self.att[(e, u)]
        if not self.row(e):
            self.pend.discard(e)

    def apply(self, o):
        k = o[0]
        if k == 'create':
            e = o[1]
            if e is None:
                while self.row(self.next_id):
                    self.next_id += 1
                e = self.next_id
                self.next_id += 1
            for u, c in o[2]:
                self.att[(e, u)] = c
        elif k == 'add':
            self.att[(o[1], o[2])] = o[3]
        elif k == 'remove':
            u = self.walk(self.row(o[1]), o[2])
            if u is not None:
                self.drop(o[1], u)
        elif k == 'delete':
            if o[2]:
                for u in list(self.row(o[1])):
                    del self.att[(o[1], u)]
                self.pend.discard(o[1])
            else:
                self.pend.add(o[1])
        elif k == 'process':
            for e in list(self.pend):
                for u in list(self.row(e)):
                    del self.att[(e, u)]
            self.pend.clear()
        elif k == 'clear':
            self.att.clear()
            self.pend.clear()
            self.sprocs.clear()
            self.next_id = 1
        elif k == 'addproc':
            self.sprocs[o[1]] = o[2]
        elif k == 'rmproc':
            u = self.walk(self.sprocs, o[1])
            if u is not None:
                del self.sprocs[u]


def gen_ops(rng, P, H, pool, nops):
    st = Pred(H, pool, P)
    kinds = sorted(P['w'])
    weights = [P['w'][k] for k in kinds]
    ops, todo = [], []
    guard = 0
    while len(ops) < nops and guard < 10 * nops + 10:
        guard += 1
        forced = bool(todo)
        kind = todo.pop(0) if todo else rng.choices(kinds, weights)[0]
        o = st.make(kind, rng)
        if o is None:
            continue
        ops.append(o)
        st.apply(o)
        if forced:
            continue
        # patterns worth following up
        if o[0] == 'delete' and not o[2] and rng.random() < P['p_follow']:
            todo.append(rng.choice(['add_pend', 'remove_pend', 'replace_pend']))
            if rng.random() < 0.7:
                todo.append('process')
        elif o[0] == 'create' and o[1] is not None and o[1] >= st.next_id \
                and rng.random() < P['p_after_future']:
            todo += ['create_auto'] * rng.randint(1, 3)
        elif o[0] == 'clear' and rng.random() < 0.7:
            todo.append('create_auto')
        elif rng.random() < P['p_last']:
            todo.append('remove_last')
    return ops, st


def gen_case(rng, P, tier):
    n = rng.randint(*P['ncls'])
    H = gen_H(rng, n, rng.random() < P['p_force'])
    kinds = [rng.choices(KINDS, P['kind_w'])[0] for _ in range(n)]
    pkinds = [rng.choices(KINDS, P['kind_w'])[0] for _ in range(n)]
    npool = rng.randint(*P['npool'])
    cand = [1, 1, 2, 2, 3, 3, 4, 5, 6, 7, 8, 0, -1, -2, -3, -4, -5]
    pool = []
    while len(pool) < npool:
        e = rng.choice(cand)
        if e not in pool:
            pool.append(e)
    nops = rng.randint(*P['nops'])
    ops, st = gen_ops(rng, P, H, pool, nops)
    # ask about the entities the operations talk about as well (bounded)
    for e in st_entities(ops, st):
        if len(pool) >= P['pool_cap']:
            break
        if e not in pool:
            pool.append(e)
    # a class outside the hierarchy as the query type of a few removals
    for o in ops:
        if o[0] in ('remove', 'rmproc') and rng.random() < 0.04:
            o[2 if o[0] == 'remove' else 1] = n
    case = dict(H=H, kinds=kinds, pkinds=pkinds, pool=pool, ops=ops,
                qseed=rng.randrange(1, 10 ** 6), nq=6,
                full=(tier == 'thorough' and len(ops) <= P['full_max_ops']),
                lazy=(rng.randint(1, n - 1) if n >= 2 and rng.random() < 0.5 else None),
                idmode=rng.choices(['int', 'str', 'offset'], [60, 20, 20])[0])
    return case


def st_entities(ops, st):
    """Entity ids mentioned by (or predicted for) the operations."""
    out = []
    nxt = Pred(st.H, st.pool, st.P)
    for o in ops:
        if o[0] == 'create' and o[1] is None:
            while nxt.row(nxt.next_id):
                nxt.next_id += 1
            e = nxt.next_id
        elif o[0] in ('create', 'add', 'remove', 'delete'):
            e = o[1]
        else:
            e = None
        nxt.apply(o)
        if e is not None and e not in out:
            out.append(e)
    return out


def gen_cases(rng, tier, P):
    return [gen_case(rng, P, tier) for _ in range(P['counts'][tier])]


# ---------------------------------------------------------- shrink / mutate
def mentioned_classes(case):
    s = set()
    for o in case['ops']:
        if o[0] == 'create':
            s |= {u for u, _ in o[2]}
        elif o[0] in ('add', 'remove'):
            s.add(o[2])
        elif o[0] in ('addproc', 'rmproc'):
            s.add(o[1])
    return s


def shrink(case):
    from harness.core import default_shrink
    for c in default_shrink(case):
        yield c
    n = len(case['H'])
    if n > 1 and (n - 1) not in mentioned_classes(case) \
            and not any((n - 1) in bs for bs in case['H']):
        c = dict(case)
        c['H'] = case['H'][:-1]
        c['kinds'] = case['kinds'][:-1]
        c['pkinds'] = case['pkinds'][:-1]
        yield c
    for i in range(len(case['pool'])):
        c = dict(case)
        c['pool'] = case['pool'][:i] + case['pool'][i + 1:]
        yield c
    for key in ('kinds', 'pkinds'):
        if any(k != 'plain' for k in case[key]):
            c = dict(case)
            c[key] = ['plain'] * n
            yield c


def mutate(case, rng):
    n = len(case['H'])
    ops = case['ops']
    ctype, ptype, ents = {}, {}, list(case['pool'])
    for o in ops:
        if o[0] == 'create':
            for u, c in o[2]:
                ctype.setdefault(c, u)
        elif o[0] == 'add':
            ctype.setdefault(o[3], o[2])
        elif o[0] == 'addproc':
            ptype.setdefault(o[2], o[1])
        if o[0] in ('create', 'add', 'remove', 'delete') and o[1] is not None \
                and o[1] not in ents:
            ents.append(o[1])
    if not ents:
        ents = [1]
    state = {'c': max(list(ctype) + [9]) + 1, 'p': max(list(ptype) + [0]) + 1}

    def inst():
        if ctype and rng.random() < 0.4:
            c = rng.choice(sorted(ctype))
            return ctype[c], c
        u = rng.randrange(n)
        c = state['c']
        state['c'] += 1
        ctype[c] = u
        return u, c

    def rand_op():
        k = rng.choice(['create', 'create', 'add', 'add', 'add', 'remove', 'remove',
                        'delete', 'delete', 'process', 'clear', 'enable', 'addproc',
                        'rmproc', 'probe'])
        e = rng.choice(ents)
        if k == 'create':
            cs, seen = [], set()
            for _ in range(rng.randint(0, 2)):
                u, c = inst()
                if u not in seen and c not in [x[1] for x in cs]:
                    seen.add(u)
                    cs.append([u, c])
            return ['create', None if rng.random() < 0.5 else e, cs]
        if k == 'add':
            u, c = inst()
            return ['add', e, u, c]
        if k == 'remove':
            return ['remove', e, rng.randrange(n)]
        if k == 'delete':
            return ['delete', e, rng.random() < 0.5]
        if k == 'enable':
            return ['enable', rng.random() < 0.5]
        if k == 'probe':
            return ['probe']
        if k == 'addproc':
            if ptype and rng.random() < 0.4:
                p = rng.choice(sorted(ptype))
                return ['addproc', ptype[p], p]
            u = rng.randrange(n)
            p = state['p']
            state['p'] += 1
            ptype[p] = u
            return ['addproc', u, p]
        if k == 'rmproc':
            return ['rmproc', rng.randrange(n)]
        return [k]

    for _ in range(200):
        new = [list(o) for o in ops]
        r = rng.random()
        typed = [i for i, o in enumerate(new) if o[0] in ('remove', 'rmproc')]
        if r < 0.5 or not new:
            new.insert(rng.randint(0, len(new)), rand_op())
        elif r < 0.65:
            del new[rng.randrange(len(new))]
        elif r < 0.8 and len(new) >= 2:
            i = rng.randrange(len(new) - 1)
            new[i], new[i + 1] = new[i + 1], new[i]
        elif typed:
            i = rng.choice(typed)
            new[i][-1] = rng.randrange(n)
        else:
            new.append(rand_op())
        c = dict(case)
        c['ops'] = new
        yield c


# ------------------------------------------------------- evidence functions
STATE_OPS = ('create', 'add', 'remove', 'delete', 'process', 'clear', 'addproc', 'rmproc')


def case_types(case):
    ctype, ptype = {}, {}
    for o in case['ops']:
        if o[0] == 'create':
            for u, c in o[2]:
                ctype.setdefault(c, u)
        elif o[0] == 'add':
            ctype.setdefault(o[3], o[2])
        elif o[0] == 'addproc':
            ptype.setdefault(o[2], o[1])
    return ctype, ptype


def executed(case, trace):
    if not isinstance(trace, dict) or 'obs' not in trace or not case['ops']:
        return []
    return [(o, ob) for o, ob in zip(case['ops'], trace['obs']) if not ob.get('skip')]


def by_ancestor(case, trace):
    """Executed remove / rmproc operations that returned an object attached
    under a proper subtype of the queried type."""
    ctype, ptype = case_types(case)
    k = 0
    for o, ob in executed(case, trace):
        if o[0] in ('remove', 'rmproc') and ob['res'][0] == 'obj' \
                and ob['res'][1] is not None:
            types = ctype if o[0] == 'remove' else ptype
            u = types.get(ob['res'][1])
            if u is not None and u != o[-1]:
                k += 1
    return k


def nontrivial01(case, trace):
    return sum(1 for o, _ in executed(case, trace) if o[0] in STATE_OPS) >= 3


def nontrivial06(case, trace):
    return nontrivial01(case, trace) and by_ancestor(case, trace) >= 1


def stats(cases, traces):
    hist, results, kinds, shapes = {}, {}, {}, {}
    skipped = multi = diamond = anc_removed = replacements = future = skips = 0
    same_again = total = full_cases = nqueries = 0
    callbacks = late = 0
    idmodes = {}
    for case, tr in zip(cases, traces):
        late += tr.get('late_classes', 0) if isinstance(tr, dict) else 0
        idmodes[case.get('idmode', 'int')] = idmodes.get(case.get('idmode', 'int'), 0) + 1
        H = case['H']
        callbacks += tr.get('callbacks', 0) if isinstance(tr, dict) else 0
        shapes[len(H)] = shapes.get(len(H), 0) + 1
        multi += any(len(bs) >= 2 for bs in H)
        diamond += has_diamond(H)
        full_cases += bool(case.get('full'))
        for k in case['kinds'] + case['pkinds']:
            kinds[k] = kinds.get(k, 0) + 1
        if not isinstance(tr, dict) or 'obs' not in tr:
            results['hang/crash'] = results.get('hang/crash', 0) + 1
            continue
        anc_removed += by_ancestor(case, tr)
        att, pend = {}, set()   # observed attachment (e, u) -> c, best effort
        nxt = 1
        for o, ob in zip(case['ops'] or [['nop']], tr['obs']):
            total += 1
            nqueries += len(ob['q'])
            if ob.get('skip'):
                skipped += bool(case['ops'])
                continue
            name = o[0]
            if name == 'create':
                name = 'create_auto' if o[1] is None else 'create_explicit'
            elif name == 'delete':
                name = 'delete_immediate' if o[2] else 'delete_deferred'
            hist[name] = hist.get(name, 0) + 1
            r = ob['res']
            rk = {'err': 'err%s' % (r[1:] or [''])[0]}.get(r[0], r[0])
            if r[0] == 'obj':
                rk = 'obj_none' if r[1] is None else 'obj'
            results[name + ':' + rk] = results.get(name + ':' + rk, 0) + 1
            if o[0] == 'create' and r[0] == 'id':
                if o[1] is None:
                    skips += r[1] > nxt
                    nxt = r[1] + 1
                elif nxt <= o[1] <= nxt + 2:
                    future += 1
                for u, c in o[2]:
                    att[(r[1], u)] = c
            elif o[0] == 'add':
                if (o[1], o[2]) in att:
                    replacements += 1
                    same_again += att[(o[1], o[2])] == o[3]
                att[(o[1], o[2])] = o[3]
            elif o[0] == 'remove' and r[0] == 'obj' and r[1] is not None:
                att = {k: c for k, c in att.items() if not (k[0] == o[1] and c == r[1])}
            elif o[0] == 'delete' and o[2]:
                att = {k: c for k, c in att.items() if k[0] != o[1]}
            elif o[0] == 'delete':
                pend.add(o[1])
            elif o[0] == 'process':
                att = {k: c for k, c in att.items() if k[0] not in pend}
                pend = set()
            elif o[0] == 'clear':
                att, pend = {}, set()
                nxt = 1
            pend &= {k[0] for k in att}
    return dict(cases=len(cases), reentrant_callbacks=callbacks, classes_defined_late=late,
                id_modes=idmodes, entries=total, queries=nqueries, operations=hist,
                skipped_not_wellformed=skipped, results=results,
                classes_per_case=shapes, cases_with_multibase_class=multi,
                cases_with_diamond=diamond, handler_kinds=kinds,
                removed_by_proper_ancestor=anc_removed, replacements=replacements,
                replacements_same_instance=same_again,
                explicit_id_equals_future_auto_id=future,
                automatic_id_skipped_occupied=skips, full_snapshot_cases=full_cases)
