"""C18 helpers that need the real desper.math (run with PYTHONPATH=<repo>).

* call_real(key, args)      run one method of the real classes on exact values
* py_spec(key, xs, out, w)  an independent textbook oracle in Python (Fractions),
                            used only to SEARCH for a failing input when a
                            proof obligation broke; never part of a verdict
* search / floats / swizzle sub-commands used by harness/props/c18.py:
      python -m harness.math_oracle search <seed> <n> [key ...]
      python -m harness.math_oracle floats <seed> <n>
      python -m harness.math_oracle swizzle
"""
import inspect
import itertools
import json
import math
import random
import sys
import warnings
from fractions import Fraction

from harness.pymath2coq import TARGETS, SIZES
from harness import math_shim as sh
from harness.math_shim import Ang, Deg, enc, dec

SHAPES = {k: (cls, name, shapes) for k, cls, name, shapes in TARGETS}
TRIG = {'Vec2.from_polar', 'Vec2.heading', 'Vec2.from_heading', 'Vec2.rotate'}
# methods whose result goes through math.sqrt (exact only on special inputs)
ROOT = {'%s.%s' % (c, m) for c in ('Vec2', 'Vec3', 'Vec4')
        for m in ('__abs__', 'distance', 'normalize')} | {
    'Vec2.mag', 'Vec3.mag', 'Vec2.from_magnitude', 'Vec3.from_magnitude',
    'Vec2.limit', 'Vec3.limit'}
EXACT_KEYS = [k for k, _, _, _ in TARGETS if k not in sh.FLOAT_ONLY]
SHIM_ALWAYS = sh.ANGLE_KEYS | {'Mat4.look_at'}


def arity(key):
    cls, name, shapes = SHAPES[key]
    n = 0
    if cls is not None and name != '__call__' and kind(key) in ('method', 'property'):
        n += SIZES[cls]
    for s in shapes:
        n += 1 if s == 's' else (0 if isinstance(s, tuple) else SIZES[s])
    return n


def _mod():
    import desper.math as M
    return M


def kind(key):
    cls, name, _ = SHAPES[key]
    if cls is None or name == '__call__':
        return 'function'
    a = inspect.getattr_static(getattr(_mod(), cls), name)
    if isinstance(a, property):
        return 'property'
    if isinstance(a, staticmethod):
        return 'staticmethod'
    if isinstance(a, classmethod):
        return 'classmethod'
    return 'method'


def _inst(M, c, vals):
    C = getattr(M, c)
    return C(tuple(vals)) if c.startswith('Mat') else C(*vals)


def call_real(key, xs):
    """-> (list of results, warned).  xs: flat list of numbers."""
    M = _mod()
    cls, name, shapes = SHAPES[key]
    xs = list(xs)
    pos = 0
    recv = None
    k = kind(key)
    if k in ('method', 'property'):
        recv = _inst(M, cls, xs[:SIZES[cls]])
        pos = SIZES[cls]
    args = []
    for s in shapes:
        if s == 's':
            args.append(xs[pos])
            pos += 1
        elif isinstance(s, tuple):
            args.append(s[1])
        else:
            args.append(_inst(M, s, xs[pos:pos + SIZES[s]]))
            pos += SIZES[s]
    if pos != len(xs):
        raise ValueError('wrong number of entries for %s' % key)
    with warnings.catch_warnings(record=True) as wl:
        warnings.simplefilter('always')
        if cls is None:
            r = getattr(M, name)(*args)
        elif name == '__call__':
            r = getattr(M, cls)()
        elif k == 'property':
            r = getattr(recv, name)
        elif k in ('staticmethod', 'classmethod'):
            r = getattr(getattr(M, cls), name)(*args)
        else:
            r = getattr(recv, name)(*args)
    out = list(r) if isinstance(r, tuple) else [r]
    rcls = type(r).__name__
    return out, len(wl) > 0, rcls


def exact(x):
    if isinstance(x, Ang):
        return x
    if isinstance(x, bool) or not isinstance(x, (int, float, Fraction)):
        raise TypeError('not a number: %r' % (x,))
    if isinstance(x, float) and (x != x or x in (float('inf'), float('-inf'))):
        raise ValueError('not finite')
    return Fraction(x)


# ------------------------------------------------- textbook oracle (Python)
def _dot(u, v):
    return sum((a * b for a, b in zip(u, v)), Fraction(0))


def _mm(n, A, B):
    return [sum((A[i * n + k] * B[k * n + j] for k in range(n)), Fraction(0))
            for i in range(n) for j in range(n)]


def _ident(n):
    return [Fraction(int(i == j)) for i in range(n) for j in range(n)]


def _det(n, A):
    """Leibniz formula"""
    tot = Fraction(0)
    for p in itertools.permutations(range(n)):
        sg = 1
        for i in range(n):
            for j in range(i + 1, n):
                if p[i] > p[j]:
                    sg = -sg
        t = Fraction(sg)
        for i in range(n):
            t *= A[i * n + p[i]]
        tot += t
    return tot


def py_spec(key, xs, out, warned, tol=Fraction(0)):
    """True iff `out` is what the textbook says for inputs xs (all Fractions).
    tol > 0: relative tolerance for results that went through sqrt."""
    def eq(a, b):
        return abs(a - b) <= tol * max(1, abs(a), abs(b))

    def eqs(a, b):
        return len(a) == len(b) and all(eq(x, y) for x, y in zip(a, b))

    cls, name, shapes = SHAPES[key]
    if key in sh.SECOND:
        return sh.spec2(key, xs, out, warned)
    if key == 'clamp':
        x, lo, hi = xs
        return (not warned) and eqs(out, [max(min(x, hi), lo)])
    if cls in ('Vec2', 'Vec3', 'Vec4'):
        n = SIZES[cls]
        a, b = xs[:n], xs[n:2 * n]
        if warned:
            return False
        if name in 'xyzw':
            return eqs(out, [a['xyzw'.index(name)]])
        if name == '__call__':
            return eqs(out, [0] * n)
        if name in ('__add__', '__radd__') and len(xs) == 2 * n:
            return eqs(out, [x + y for x, y in zip(a, b)])
        if name == '__radd__':
            return eqs(out, a)
        if name == '__sub__':
            return eqs(out, [x - y for x, y in zip(a, b)])
        if name == '__mul__':
            return eqs(out, [x * y for x, y in zip(a, b)])
        if name == '__truediv__':
            return eqs(out, [x / y for x, y in zip(a, b)])
        if name == '__neg__':
            return eqs(out, [-x for x in a])
        if name == 'lerp':
            t = xs[2 * n]
            return eqs(out, [(1 - t) * x + t * y for x, y in zip(a, b)])
        if name == 'scale':
            return eqs(out, [xs[n] * x for x in a])
        if name == 'clamp':
            lo, hi = xs[n], xs[n + 1]
            return eqs(out, [max(min(x, hi), lo) for x in a])
        if name == 'dot':
            return eqs(out, [_dot(a, b)])
        if name == 'cross':
            return eqs(out, [a[1] * b[2] - a[2] * b[1], a[2] * b[0] - a[0] * b[2],
                             a[0] * b[1] - a[1] * b[0]])
        if name in ('__abs__', 'mag'):
            return len(out) == 1 and out[0] >= 0 and eq(out[0] * out[0], _dot(a, a))
        if name == 'distance':
            d = [x - y for x, y in zip(a, b)]
            return len(out) == 1 and out[0] >= 0 and eq(out[0] * out[0], _dot(d, d))
        par = lambda o, v: all(eq(o[i] * v[j], o[j] * v[i]) for i in range(n) for j in range(n))
        if name == 'normalize':
            if all(x == 0 for x in a):
                return eqs(out, a)
            return len(out) == n and eq(_dot(out, out), 1) and par(out, a) and _dot(out, a) > 0
        if name == 'from_magnitude':
            m = xs[n]
            if all(x == 0 for x in a):
                return len(out) == n
            return (len(out) == n and eq(_dot(out, out), m * m) and par(out, a)
                    and m * _dot(out, a) >= 0)
        if name == 'limit':
            m = xs[n]
            if len(out) != n or _dot(out, out) > m * m * (1 + tol):
                return False
            return list(out) == list(a) if _dot(a, a) <= m * m else True
        return None
    n = 3 if cls == 'Mat3' else 4
    nn = n * n
    A, B = xs[:nn], xs[nn:]
    if name == '__invert__':
        if len(out) != 16:
            return False
        if _det(4, A) == 0:
            return warned and eqs(out, A)
        return (not warned) and eqs(_mm(4, A, out), _ident(4)) and eqs(_mm(4, out, A), _ident(4))
    if warned:
        return False
    if name == '__call__':
        return eqs(out, _ident(n))
    if name == '__add__':
        return eqs(out, [x + y for x, y in zip(A, B)])
    if name == '__sub__':
        return eqs(out, [x - y for x, y in zip(A, B)])
    if name == '__pos__':
        return eqs(out, A)
    if name == '__neg__':
        return eqs(out, [-x for x in A])
    if name == '__matmul__' and len(B) == nn:
        return eqs(out, _mm(n, A, B))
    if name == '__matmul__':
        return eqs(out, [sum((B[k] * A[k * n + j] for k in range(n)), Fraction(0))
                         for j in range(n)])
    if name == 'transpose':
        return eqs(out, [A[j * 4 + i] for i in range(4) for j in range(4)])
    if name == 'from_translation':
        t = xs
        return eqs(out, [1, 0, 0, 0, 0, 1, 0, 0, 0, 0, 1, 0, t[0], t[1], t[2], 1])
    if name == 'from_scale':
        s = xs
        return eqs(out, [s[0], 0, 0, 0, 0, s[1], 0, 0, 0, 0, s[2], 0, 0, 0, 0, 1])
    if name == 'translate':
        t = xs[16:]
        return eqs(out, _mm(4, A, [1, 0, 0, 0, 0, 1, 0, 0, 0, 0, 1, 0, t[0], t[1], t[2], 1]))
    if name == 'orthogonal_projection':
        l, r, b, t, nr, fr = xs
        if len(out) != 16:
            return False
        for sx, sy, sz in itertools.product((0, 1), repeat=3):
            p = [(l, r)[sx], (b, t)[sy], -(nr, fr)[sz], 1]
            img = [sum((p[k] * out[k * 4 + j] for k in range(4)), Fraction(0)) for j in range(4)]
            if not eqs(img, [2 * sx - 1, 2 * sy - 1, 2 * sz - 1, 1]):
                return False
        return True
    return None


# --------------------------------------------------------------- generators
DENS = [1, 1, 1, 1, 2, 2, 3, 4, 5, 8]


def rnd_q(rng, small=False):
    r = rng.random()
    if r < 0.08:
        return Fraction(0)
    if r < 0.14:
        return Fraction(rng.choice((1, -1)))
    return Fraction(rng.randint(-9, 9), 1 if small else rng.choice(DENS))


def dyadic(rng):
    return Fraction(rng.randint(-12, 12), rng.choice((1, 1, 2, 4, 8)))


PYTH = {2: [(3, 4), (4, 3), (5, 12), (8, 15), (0, 1), (1, 0), (0, 0), (6, 8)],
        3: [(1, 2, 2), (2, 3, 6), (1, 4, 8), (4, 4, 7), (2, 6, 9), (6, 6, 7), (0, 3, 4),
            (0, 0, 1), (0, 0, 0), (3, 4, 12), (2, 10, 11)],
        4: [(1, 1, 1, 1), (1, 2, 2, 4), (2, 4, 5, 6), (1, 1, 3, 5), (0, 1, 2, 2), (0, 0, 3, 4),
            (0, 0, 0, 1), (0, 0, 0, 0), (2, 2, 2, 2), (1, 3, 3, 9)]}
POW2 = {2: [(0, 1), (1, 0), (0, 0)], 3: [(0, 0, 1), (0, 1, 0), (1, 0, 0), (0, 0, 0)],
        4: [(1, 1, 1, 1), (0, 0, 0, 1), (0, 1, 0, 0), (0, 0, 0, 0), (1, 1, 1, 1)]}


def _signed_perm(rng, t, scale):
    t = list(t)
    rng.shuffle(t)
    return [Fraction(x * rng.choice((1, -1))) * scale for x in t]


def pyth_vec(rng, n, pow2=False):
    """a vector whose length is rational (pow2: a power of two), entries dyadic"""
    scale = Fraction(rng.choice((1, 2, 4)), rng.choice((1, 2, 4)))
    return _signed_perm(rng, rng.choice((POW2 if pow2 else PYTH)[n]), scale)


def rnd_mat(rng, n):
    r = rng.random()
    nn = n * n
    if r < 0.5:
        return [rnd_q(rng) for _ in range(nn)]
    if r < 0.65:                         # sparse / transform-like
        m = [Fraction(int(i == j)) for i in range(n) for j in range(n)]
        for _ in range(rng.randint(1, 5)):
            m[rng.randrange(nn)] = rnd_q(rng)
        return m
    if r < 0.88:                         # singular: a repeated or combined row
        m = [rnd_q(rng, True) for _ in range(nn)]
        i, j = rng.sample(range(n), 2)
        c = rnd_q(rng, True)
        for k in range(n):
            m[i * n + k] = c * m[j * n + k]
        if rng.random() < 0.5:
            return [m[j * n + i] for i in range(n) for j in range(n)]
        return m
    return [Fraction(rng.randint(-3, 3)) for _ in range(nn)]


def gen_inputs(key, rng):
    """exact inputs on which the real code computes exactly (see RULE in c18.py)"""
    cls, name, shapes = SHAPES[key]
    if key in sh.SECOND:
        return sh.gen2(key, rng)
    if key == 'clamp':
        return [rnd_q(rng) for _ in range(3)]
    if cls in ('Vec2', 'Vec3', 'Vec4'):
        n = SIZES[cls]
        if name in ('__abs__', 'mag'):
            return pyth_vec(rng, n)
        if name == 'distance':
            a = [dyadic(rng) for _ in range(n)]
            d = pyth_vec(rng, n)
            return a + [x + y for x, y in zip(a, d)]
        if name == 'normalize':
            return pyth_vec(rng, n, pow2=True)
        if name == 'from_magnitude':
            return pyth_vec(rng, n, pow2=True) + [dyadic(rng)]
        if name == 'limit':
            if rng.random() < 0.35:      # the long branch, on exact inputs
                v = pyth_vec(rng, n, pow2=True)
                return v + [abs(dyadic(rng)) * rng.choice((0, 1, 1)) / 4]
            v = [rnd_q(rng) for _ in range(n)]
            s = _dot(v, v)
            r = rng.random()
            if r < 0.5:                  # short enough: any m with m^2 >= |v|^2
                m = Fraction(math.isqrt(int(s)) + 1 + rng.randint(0, 3), 1)
                return v + [m]
            v = pyth_vec(rng, n)         # exactly on the boundary; entries need not be
            k = Fraction(1, rng.choice((1, 3, 5, 7)))    # dyadic: the vector comes back as is
            v = [x * k for x in v]
            s = _dot(v, v)
            m = Fraction(math.isqrt(s.numerator), math.isqrt(s.denominator))
            return v + [m]
        if name == '__truediv__':
            a = [rnd_q(rng) for _ in range(n)]
            b = []
            while len(b) < n:
                q = rnd_q(rng)
                if q != 0:
                    b.append(q)
            return a + b
        xs = []
        if name != '__call__':
            xs += [rnd_q(rng) for _ in range(n)]
        for s in shapes:
            if s == 's':
                xs.append(rnd_q(rng))
            elif not isinstance(s, tuple):
                xs += [rnd_q(rng) for _ in range(SIZES[s])]
        if name == 'clamp' and rng.random() < 0.8 and xs[n] > xs[n + 1]:
            xs[n], xs[n + 1] = xs[n + 1], xs[n]
        return xs
    n = 3 if cls == 'Mat3' else 4
    if name == '__call__':
        return []
    if name == 'orthogonal_projection':
        sizes = [Fraction(rng.choice((1, 2, 4, 8)), rng.choice((1, 2, 4))) * rng.choice((1, -1))
                 for _ in range(3)]
        lo = [rnd_q(rng) for _ in range(3)]
        return [lo[0], lo[0] + sizes[0], lo[1], lo[1] + sizes[1], lo[2], lo[2] + sizes[2]]
    if name in ('from_translation', 'from_scale'):
        return [rnd_q(rng) for _ in range(3)]
    xs = rnd_mat(rng, n)
    for s in shapes:
        if s == 's':
            xs.append(rnd_q(rng))
        elif not isinstance(s, tuple):
            xs += rnd_mat(rng, n) if s.startswith('Mat') else [rnd_q(rng) for _ in range(SIZES[s])]
    return xs


def gen_root_shim(key, rng):
    """sqrt methods under the scripted math: any vector of rational length"""
    cls, name, shapes = SHAPES[key]
    n = SIZES[cls]
    k = Fraction(rng.choice((1, 2, 3, 5)), rng.choice((1, 2, 3, 7)))
    v = _signed_perm(rng, rng.choice(PYTH[n]), k)
    if name == 'distance':
        a = [rnd_q(rng) for _ in range(n)]
        return a + [x + y for x, y in zip(a, v)]
    if name == 'from_magnitude':
        return v + [rnd_q(rng)]
    if name == 'limit':
        r = sh.exact_root(_dot(v, v))
        m = rng.choice((r, r * Fraction(rng.randint(0, 7), 4), abs(rnd_q(rng))))
        return v + [m]
    return v


def gen_case(key, rng):
    """one case: method, encoded inputs, whether the run uses the scripted math"""
    shim = key in SHIM_ALWAYS
    if key in ROOT and rng.random() < 0.45:
        shim = True
        xs = gen_root_shim(key, rng)
    else:
        xs = gen_inputs(key, rng)
    assert in_domain(key, xs, shim), (key, xs, shim)
    return {'m': key, 'args': [enc(x) for x in xs], 'shim': shim}


def _pow2(n):
    return n > 0 and n & (n - 1) == 0


def _dy(x):
    return _pow2(x.denominator) and x.denominator <= 1 << 12 and abs(x.numerator) < 1 << 24


def _root(s):
    """the rational square root of s, or None"""
    if s < 0:
        return None
    a, b = math.isqrt(s.numerator), math.isqrt(s.denominator)
    return Fraction(a, b) if a * a == s.numerator and b * b == s.denominator else None


def in_domain(key, xs, shim=False):
    """inputs on which the arithmetic of the real code is exact (binary64, or
    the scripted math when shim), so that its result can be compared exactly
    (the generator only produces such inputs; shrinking and mutation must
    stay inside)"""
    cls, name, shapes = SHAPES[key]
    if key in sh.SECOND:
        if any(isinstance(x, (Ang, Deg)) for x in xs) != (key in sh.ANGLE_KEYS
                                                           and key != 'Vec2.heading'):
            return False
        return sh.dom2(key, xs)
    if shim and key in ROOT:
        n = SIZES[cls]
        a = xs[:n]
        if name == 'distance':
            a = [x - y for x, y in zip(xs[:n], xs[n:])]
        if name == 'limit' and xs[n] < 0:
            return False
        return _root(_dot(a, a)) is not None
    if key == 'Mat4.orthogonal_projection':
        return all(x[1] != x[0] and _pow2(abs(x[1] - x[0]).numerator)
                   and _pow2(abs(x[1] - x[0]).denominator) for x in (xs[0:2], xs[2:4], xs[4:6]))
    if key not in ROOT:
        return True
    n = SIZES[cls]
    a = xs[:n]
    if name == 'distance':
        a = [x - y for x, y in zip(xs[:n], xs[n:])]
    s = _dot(a, a)
    if name == 'limit' and s <= xs[n] * xs[n]:
        return xs[n] >= 0
    if not all(_dy(x) for x in xs):
        return False
    r = _root(s)
    if r is None:
        return False
    if name in ('__abs__', 'mag', 'distance'):
        return True
    return r == 0 or (_pow2(r.numerator) and _pow2(r.denominator))


def observe(key, xs, shim=False):
    """run the real code; -> dict(out=[[n, d]..], warn=bool, cls=str) or dict(exc=...).
    shim: desper.math's `_math` global is replaced by the exact double for
    the duration of the call."""
    M = _mod()
    real = M._math
    try:
        if shim:
            M._math = sh.Shim
        out, w, rcls = call_real(key, xs)
        out = [exact(x) for x in out]
    except Exception as ex:              # an observation, not a harness bug
        return {'exc': '%s: %s' % (type(ex).__name__, str(ex)[:120])}
    finally:
        M._math = real
    return {'out': [enc(x) for x in out], 'warn': w, 'cls': rcls}


# ------------------------------------------------------------ sub-commands
def float_inputs(key, rng):
    cls, name, shapes = SHAPES[key]
    u = lambda: rng.uniform(-1e3, 1e3)
    n = SIZES[cls]
    if key == 'Vec2.from_polar':
        return [u(), rng.uniform(-6.3, 6.3)]
    xs = [u() for _ in range(n)]
    if name == 'distance':
        xs += [u() for _ in range(n)]
    elif name in ('from_heading', 'rotate'):
        xs.append(rng.uniform(-6.3, 6.3))
    elif name == 'from_magnitude':
        xs.append(u())
    elif name == 'limit':
        r = rng.random()
        m = math.sqrt(sum(x * x for x in xs))
        xs.append(abs(u()) * 2 if r < 0.4 else (m * rng.uniform(0.0, 1.5) if r < 0.9 else 0.0))
    return xs


def float_ok(key, xs, out, tol=1e-9):
    """the defining identity of one sqrt/trig operation, up to tol (relative)"""
    cls, name, shapes = SHAPES[key]
    n = SIZES[cls]
    a = xs[:n]
    na = math.sqrt(sum(x * x for x in a))

    def close(x, y, scale=1.0):
        return abs(x - y) <= tol * max(scale, abs(x), abs(y))
    nrm = lambda v: math.sqrt(sum(x * x for x in v))
    if name in ('__abs__', 'mag'):
        return out[0] >= 0 and close(out[0] * out[0], sum(x * x for x in a))
    if name == 'distance':
        d = [x - y for x, y in zip(a, xs[n:])]
        return out[0] >= 0 and close(out[0] * out[0], sum(x * x for x in d))
    if name == 'normalize':
        if na == 0:
            return list(out) == list(a)
        return close(nrm(out), 1.0) and all(close(o * na, x, na) for o, x in zip(out, a))
    if name == 'from_magnitude':
        m = xs[n]
        return close(nrm(out), abs(m)) and all(
            close(o * na, m * x, abs(m) * na) for o, x in zip(out, a))
    if name == 'limit':
        m = xs[n]
        if nrm(out) > m * (1 + tol):
            return False
        return list(out) == list(a) if na <= m * (1 - tol) else True
    if name == 'from_polar':
        m, h = xs
        return close(nrm(out), abs(m)) and close(out[0], m * math.cos(h), abs(m)) and close(
            out[1], m * math.sin(h), abs(m))
    if name == 'heading':
        h = out[0]
        return close(na * math.cos(h), a[0], na) and close(na * math.sin(h), a[1], na)
    if name == 'from_heading':
        h = xs[n]
        return close(nrm(out), na, na) and close(out[0], na * math.cos(h), na) and close(
            out[1], na * math.sin(h), na)
    if name == 'rotate':
        p = xs[n]
        return (close(nrm(out), na, na)
                and close(out[0], math.cos(p) * a[0] - math.sin(p) * a[1], na)
                and close(out[1], math.sin(p) * a[0] + math.cos(p) * a[1], na))
    return None


def float_case(key, rng):
    return sh.float2_inputs(key, rng) if key in sh.FLOAT2 else float_inputs(key, rng)


def float_check(key, xs):
    """-> (ok, printable result) for one float input"""
    try:
        out, w, _ = call_real(key, xs)
        out = [float(x) for x in out]
        ok = (sh.float2_ok(key, xs, out) if key in sh.FLOAT2 else float_ok(key, xs, out))
        return bool(ok) and not w, [repr(x) for x in out]
    except Exception as ex:
        return False, ['%s: %s' % (type(ex).__name__, str(ex)[:80])]


FLOAT_KEYS = sorted(ROOT | TRIG) + sh.FLOAT2


def cmd_floats(seed, n):
    rng = random.Random(seed)
    res = {'tested': {}, 'failures': []}
    for key in FLOAT_KEYS:
        for _ in range(n):
            xs = float_case(key, rng)
            ok, out = float_check(key, xs)
            if not ok and len(res['failures']) < 5:
                res['failures'].append({'m': key, 'args': xs, 'out': out})
        res['tested'][key] = n
    return res


def swizzle_codes(cls, letters, foreign):
    M = _mod()
    C = getattr(M, cls)
    n = len(letters)
    v = C(*range(n))
    alpha = letters + foreign
    codes = []
    for L in range(6):
        for tup in itertools.product(alpha, repeat=L):
            s = ''.join(tup)
            try:
                r = getattr(v, s)
            except AttributeError:
                codes.append(0)
                continue
            except Exception:
                codes.append(7)          # any other exception: never in the model
                continue
            if isinstance(r, tuple):
                ok = type(r).__name__ == 'Vec%d' % len(r) and all(
                    isinstance(x, int) and 0 <= x < n for x in r)
                codes.append(int('1' + ''.join(str(x + 1) for x in r)) if ok else 8)
            elif isinstance(r, int) and 0 <= r < n:
                codes.append(20 + r + 1)
            else:
                codes.append(9)
    return codes


def judge(case):
    """run one case on the real code and compare with the Python oracle"""
    key = case['m']
    xs = [dec(p) for p in case['args']]
    ob = observe(key, xs, case.get('shim', False))
    if 'exc' in ob:
        return ob, False
    out = [dec(p) for p in ob['out']]
    tol = Fraction(1, 10 ** 9) if (key in ROOT and not case.get('shim')) else Fraction(0)
    return ob, py_spec(key, xs, out, ob['warn'], tol) is not False


def cmd_search(seed, n, keys):
    """random exact inputs -> first input on which the real code's result is not
    the textbook one (also: raises, or is not exact where it should be)"""
    rng = random.Random(seed)
    keys = keys or EXACT_KEYS
    tried = 0
    for rnd in range(n):
        for key in keys:
            if key in sh.FLOAT_ONLY:
                continue
            case = gen_case(key, rng)
            tried += 1
            ob, ok = judge(case)
            if not ok:
                return {'tried': tried, 'case': case, 'trace': ob}
    # float inputs for the operations with roots and angles
    fkeys = [k for k in FLOAT_KEYS if keys == EXACT_KEYS or k in keys]
    for rnd in range(n):
        for key in fkeys:
            xs = float_case(key, rng)
            tried += 1
            ok, out = float_check(key, xs)
            if not ok:
                return {'tried': tried, 'float': True,
                        'case': {'m': key, 'float_args': xs},
                        'trace': {'float_args': xs, 'out': out}}
    return {'tried': tried, 'case': None}


def cmd_replay(case):
    if 'float_args' in case:
        ok, out = float_check(case['m'], case['float_args'])
        return {'trace': {'out': out}, 'ok': ok}
    ob, ok = judge(case)
    if ok and case['m'] in FLOAT_KEYS:
        rng = random.Random(0)
        for _ in range(200):
            fok, out = float_check(case['m'], float_case(case['m'], rng))
            if not fok:
                return {'trace': ob, 'ok': False, 'float_out': out}
    return {'trace': ob, 'ok': bool(ok)}


def main(argv):
    if argv[0] == 'replay':
        print(json.dumps(cmd_replay(json.loads(argv[1]))))
        return 0
    if argv[0] == 'search':
        print(json.dumps(cmd_search(int(argv[1]), int(argv[2]), argv[3:])))
    elif argv[0] == 'floats':
        print(json.dumps(cmd_floats(int(argv[1]), int(argv[2]))))
    elif argv[0] == 'swizzle':
        print(json.dumps({c: swizzle_codes(c, l, 'q') for c, l in
                          (('Vec2', 'xy'), ('Vec3', 'xyz'), ('Vec4', 'xyzw'))}))
    return 0


if __name__ == '__main__':
    sys.exit(main(sys.argv[1:]))
