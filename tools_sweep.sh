#!/bin/sh
# robustness sweep: every claimed check, several seeds, on the unchanged tree
cd "$(dirname "$0")" || exit 2
(cd coq && coq_makefile -f _CoqProject -o Makefile >/dev/null && timeout 3000 make -j8 >/dev/null 2>&1) || echo "BUILD FAILED"
for s in ${SEEDS:-11 12 13 14 15}; do
  for p in $(python3 -c "import json;print(' '.join(c['property_id'] for c in json.load(open('MANIFEST.json'))['checks']))"); do
    out=$(VERIF_SEED=$s timeout 1800 ./check $p ${TIER:-quick} 2>&1); rc=$?
    echo "seed=$s $p exit=$rc $(echo "$out" | grep -c VIOLATION) violations"
    [ $rc -ne 0 ] && echo "$out" | tail -5
  done
done
