import sys, random
sys.path.insert(0, sys.argv[1])
import desper
from desper import World, event_handler
print(desper.__file__)
def mkclasses(rnd):
    root=type('Root',(),{})
    cls=[root]
    for i in range(rnd.randint(2,6)):
        for _ in range(10):
            k=rnd.randint(1,min(2,len(cls)))
            bases=tuple(rnd.sample(cls,k))
            try:
                c=type(f'K{i}',bases,{}); break
            except TypeError: continue
        else: c=type(f'K{i}',(root,),{})
        cls.append(c)
    # make half of them handlers
    out=[]
    for c in cls:
        kind=rnd.choice(['plain','both','addonly','probeonly'])
        out.append((c,kind))
    return cls
LOG=[]
def handlerize(c, kind):
    ns={}
    def on_add(s,e,w): LOG.append(('add',s.cid,e))
    def on_remove(s,e,w): LOG.append(('rem',s.cid,e))
    def probe(s,t): LOG.append(('probe',s.cid,t))
    c.on_add=on_add; c.on_remove=on_remove; c.probe=probe
    if kind=='both': event_handler('on_add','on_remove','probe')(c)
    elif kind=='addonly': event_handler('on_add','probe')(c)
    elif kind=='probeonly': event_handler('probe')(c)
def issub(u,t): return issubclass(u,t)
def run(seed):
    rnd=random.Random(seed)
    cls=mkclasses(rnd)
    for c in cls[1:]:
        # decide per class, but subclasses inherit __events__; keep simple: decorate only if no inherited events
        kind=rnd.choice(['plain','both','addonly','probeonly'])
        if kind!='plain' and not hasattr(c,'__events__'): handlerize(c,kind)
    w=World(); cid=[0]
    att={}   # (e,type)->comp
    dead=set(); enabled=True
    known=[False]
    pendq=[]  # expected postponed notifications in order (groups)
    pool=[1,2,3,4,'a',('t',1)]
    def new(c):
        o=c(); cid[0]+=1; o.cid=cid[0]; return o
    def expect_notifs(kind,o,e):
        ev=getattr(type(o),'__events__',None)
        if ev is None: return []
        if kind=='add' and 'probe' in ev: known[0]=True
        name={'add':'on_add','rem':'on_remove'}[kind]
        return [(kind,o.cid,e)] if name in ev else []
    ops=[]
    for step in range(rnd.randint(1,25)):
        LOG.clear(); exp=[]; r=rnd.random()
        try:
            if r<0.2:
                eid=rnd.choice([None,None]+pool)
                ts=rnd.sample(cls[1:],rnd.randint(0,min(3,len(cls)-1)))
                comps=[new(c) for c in ts]
                # K2: skip occupied slots
                if eid is not None and any((eid,type(o)) in att for o in comps): continue
                ops.append(('create',eid,[type(o).__name__ for o in comps]))
                before={e for (e,t) in att}
                got=w.create_entity(*comps,entity_id=eid)
                if eid is None: assert got not in before,('auto id reuse',got)
                for o in comps: att[(got,type(o))]=o
                for o in comps: exp+=expect_notifs('add',o,got)
            elif r<0.45:
                e=rnd.choice(pool); o=new(rnd.choice(cls[1:])); ops.append(('add',e,type(o).__name__))
                old=att.get((e,type(o)))
                w.add_component(e,o)
                if old is not None: exp+=expect_notifs('rem',old,e)
                att[(e,type(o))]=o; exp+=expect_notifs('add',o,e)
            elif r<0.6:
                e=rnd.choice(pool); T=rnd.choice(cls); ops.append(('remove',e,T.__name__))
                got=w.remove_component(e,T)
                cands=[o for (ee,t),o in att.items() if ee==e and issub(t,T)]
                if not cands: assert got is None
                else:
                    assert got in cands
                    if (e,T) in att: assert got is att[(e,T)]
                    del att[(e,type(got))]; exp+=expect_notifs('rem',got,e)
                    if not any(ee==e for (ee,t) in att): dead.discard(e)
            elif r<0.72:
                e=rnd.choice(pool); imm=rnd.random()<0.4
                exists=any(ee==e for (ee,t) in att)
                if not exists and not imm: continue
                ops.append(('delete',e,imm))
                if imm:
                    if not exists:
                        try: w.delete_entity(e,immediate=True); assert False,'no KeyError'
                        except KeyError: pass
                    else:
                        w.delete_entity(e,immediate=True)
                        for k in [k for k in att if k[0]==e]: exp+=expect_notifs('rem',att.pop(k),e)
                        dead.discard(e)
                else:
                    w.delete_entity(e); dead.add(e)
            elif r<0.8:
                ops.append(('process',))
                w.process(1)
                for e in list(dead):
                    for k in [k for k in att if k[0]==e]: exp+=expect_notifs('rem',att.pop(k),e)
                dead.clear()
            elif r<0.84:
                if not enabled: continue   # K1
                ops.append(('clear',))
                w.clear()
                for k in list(att): exp+=expect_notifs('rem',att.pop(k),k[0])
                dead.clear(); enabled=True; known[0]=False
            elif r<0.94:
                enabled=not enabled; ops.append(('enable',enabled)); w.dispatch_enabled=enabled
            else:
                ops.append(('probe',step)); w.dispatch('probe',step)
                if enabled: exp+=[('probe',o.cid,step) for o in att.values() if 'probe' in getattr(type(o),'__events__',{})]
                elif known[0]: exp+=[('PROBE',step)]
        except AssertionError: raise
        # notifications
        if enabled:
            if ops and ops[-1][0]=='enable':
                flat=[x for g in pendq for x in g]
                # compare group-wise multisets
                i=0; got=list(LOG)
                pendq=[[('probe',o.cid,g[0][1]) for o in att.values() if 'probe' in getattr(type(o),'__events__',{})] if g and g[0][0]=='PROBE' else g for g in pendq]
                for g in pendq:
                    assert sorted(map(str,got[i:i+len(g)]))==sorted(map(str,g)),('release order',ops,got,pendq)
                    i+=len(g)
                assert i==len(got),('extra on release',got,pendq); pendq=[]
            else:
                assert sorted(map(str,LOG))==sorted(map(str,exp)),('notifs',ops,LOG,exp)
        else:
            assert not LOG,('callback while disabled',ops,LOG)
            if exp: pendq.append(exp)
        # queries
        ents={e for (e,t) in att}
        assert set(w.entities)=={e for e in ents if e not in dead},('entities',ops,w.entities,ents,dead)
        for e in pool:
            assert w.entity_exists(e)==(e in ents and e not in dead)
            assert sorted(map(id,w.get_components(e)))==sorted(id(o) for (ee,t),o in att.items() if ee==e),('get_components',ops)
            for T in cls:
                cands=[o for (ee,t),o in att.items() if ee==e and issub(t,T)]
                assert w.has_component(e,T)==bool(cands)
                g=w.get_component(e,T)
                if not cands: assert g is None
                else:
                    assert g in cands
                    if (e,T) in att: assert g is att[(e,T)]
        for T in cls:
            got=sorted((str(e),id(o)) for e,o in w.get(T)); ex=sorted((str(e),id(o)) for (e,t),o in att.items() if issub(t,T))
            assert got==ex,('get',ops,T,got,ex)
        for o in att.values():
            if hasattr(type(o),'__events__'): assert w.is_handler(o),('not handler',ops)
    return None
bad=0
for seed in range(int(sys.argv[2])):
    try: run(seed)
    except AssertionError as ex:
        bad+=1
        if bad<=3: print('seed',seed,str(ex)[:700])
    except Exception as ex:
        bad+=1
        if bad<=3: print('seed',seed,'EXC',type(ex).__name__,ex)
print('bad',bad)
