import sys; sys.path.insert(0,'/repo')
import desper, gc, os, tempfile, warnings
from desper import *
# C09 kill + start
cp=CoroutineProcessor()
log=[]
def co(n):
    for i in range(5):
        log.append((n,i)); yield
g=co('g'); p=cp.start(g); cp.process(1)
cp.kill(g); p2=cp.start(g)
print('C09 state after kill+start:', cp.state(g))
try:
    for _ in range(8): cp.process(1); 
    print('C09 process ok', log, cp.state(g))
except Exception as ex: print('C09 process EXC', type(ex).__name__, ex, log)
# waiting kill + start
cp=CoroutineProcessor(); log=[]
def co2():
    log.append('a'); yield 5; log.append('b'); yield; log.append('c')
g=co2(); cp.start(g); cp.process(1); cp.kill(g); cp.start(g)
try:
    for i in range(8): cp.process(1); print(i, cp.state(g).name, log)
except Exception as ex: print('C09 waiting kill+start EXC', type(ex).__name__, ex, log)
# C11
class Hd(Handle):
    def __init__(s,v): s.v=v; s.n=0
    def load(s): s.n+=1; return s.v
m=ResourceMap(); h=Hd(1); m['a/b/c']=h
print('C11 parents:', h.parent is m.maps['a'].maps['b'], m.maps['a'].parent, m.maps['a'].key, m.maps['a'].maps['b'].parent, m.maps['a'].maps['b'].key)
print('C11 get missing default vs []:', m.get('a/x/y','D'))
try: m['a/b/c/d']
except Exception as ex: print('C11 [] through handle:', type(ex).__name__, ex)
print('C11 get through handle:', m.get('a/b/c/d','D'))
# get returning default when stored value... get('') etc
m2=ResourceMap(); m2['x']=Hd(2); m2['x']=ResourceMap(); print('C11 shadow handle->map:', type(m2.get('x')).__name__, list(m2.handles), list(m2.maps))
m2['x']=Hd(3); print('C11 shadow map->handle:', type(m2.get('x')).__name__, list(m2.handles), list(m2.maps))
# layered clear
m3=ResourceMap(); old=Hd(1); m3['k']=old; m3.handles.maps.insert(0,{}); new=Hd(2); m3['k']=new
m3.clear(); print('C11 layered clear leaves:', dict(m3.handles), m3.handles.maps, 'old.parent', old.parent, 'new.parent', new.parent)
# replaced value keeps parent?
m4=ResourceMap(); a=Hd(1); b=Hd(2); m4['k']=a; m4['k']=b; print('C11 replaced handle parent still set:', a.parent is m4, a.key)
# C12 falsy
for v in (None,0,[],''):
    h=Hd(v); h(); h(); print('C12 loads for',repr(v), h.n, h.cached)
# C16 not a dir
d=tempfile.mkdtemp(); open(os.path.join(d,'f'),'w').close()
pop=DirectoryResourcePopulator(d); pop.add_rule('f', Hd)
try: pop(ResourceMap())
except Exception as ex: print('C16 not-a-dir:', type(ex).__name__, ex)
# C17 static
m=ResourceMap(); m['a/b']=Hd(5); m['a/c d']=Hd(6); m['x']=Hd(7)
s=m.get_static_map(); print('C17', s.a.b, s['a']['c d'], s.x, s.get('x') is m.get('x'))
try: s['a/b']
except Exception as ex: print('C17 composite key on static:', type(ex).__name__, ex)
try: s.a.zzz=1
except Exception as ex: print('C17 setattr', type(ex).__name__)
try: del s.x
except Exception as ex: print('C17 delattr', type(ex).__name__)
# C18
v=Vec3(2,2,2); print('C18 limit', v.limit(3), abs(v), 'sq',12,'max^3',27)
print('C18 Vec2 sub class', type(Vec2(1,2)+Vec2(1,1)))
with warnings.catch_warnings(record=True) as wr:
    warnings.simplefilter('always'); z=~Mat4((0,)*16); print('singular', z==Mat4((0,)*16), len(wr))
print(Mat4((0,)*16)[:4], 'Mat4(values or identity) with all-zero tuple is truthy tuple -> ok')
print(Mat3((0,)*9))
print('Vec2() ->', Vec2(), Vec2(0,0))
