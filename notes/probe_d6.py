import sys; sys.path.insert(0,'/repo'); sys.path.insert(0,'/repo/tests')
import desper, gc, os, tempfile, json
from desper import *
# C14: exception then restart
class Boom(Exception): pass
class P(Processor):
    def __init__(s): s.dts=[]; s.mode='boom'
    def process(s,dt):
        s.dts.append(dt)
        if len(s.dts)==2 and s.mode=='boom': raise Boom()
        if len(s.dts)>=4: raise Quit()
class WH(Handle):
    def load(s):
        w=World(); w.add_processor(P()); return w
ts=iter([10,11,13,20,30,45,50,60])
loop=SimpleLoop(lambda: next(ts)); h=WH(); loop.switch(h)
try: loop.start()
except Boom: print('C14 boom; running=',loop.running,'last_ts',loop.last_timestamp)
loop.start(); print('C14 dts', h().get_processor(P).dts, 'running', loop.running)
# C13 clear_next
log=[]
@event_handler('on_switch_in','on_switch_out','on_add','on_world_load')
class SW:
    def __init__(s,name): s.name=name
    def on_switch_in(s,f,t): log.append((s.name,'in', id(t)))
    def on_switch_out(s,f,t): log.append((s.name,'out'))
    def on_add(s,e,w): log.append((s.name,'add'))
    def on_world_load(s,h,w): log.append((s.name,'load'))
class SwP(Processor):
    def __init__(s,target,**kw): s.t=target; s.kw=kw; s.n=0
    def process(s,dt):
        s.n+=1
        log.append(('process', id(s.world)))
        if s.n==1 and s.t is not None: switch(s.t, from_world=s.world, **s.kw)
        raise Quit()
class WH2(WorldHandle):
    loads=0
    def __init__(s,name,target=None,**kw):
        super().__init__(); s.name=name
        def tf(handle, world):
            WH2.loads+=1
            world.add_processor(SwP(target, **kw))
            world.create_entity(SW(name))
        s.transform_functions.append(tf)
hb=WH2('B')
ha=WH2('A', hb, clear_next=True)
loop=SimpleLoop(); loop.switch(ha)
loop.start(); 
print('C13 after first start:', log, 'current is B?', loop.current_world_handle is hb)
loop.start(); print('C13 log', log, 'loads', WH2.loads)
# C15 deepcopy of module argument
d=tempfile.mkdtemp(); fn=os.path.join(d,'w.json')
json.dump({'entities':[{'components':[{'type':'helpers.SimpleComponent','args':['${json}']}]}]}, open(fn,'w'))
m=ResourceMap(); m['w']=WorldFromFileHandle(fn)
try: w=m['w']; print('C15 module arg ok', w.get_components(1)[0].val)
except Exception as ex: print('C15 module arg EXC', type(ex).__name__, str(ex)[:200])
json.dump({'entities':[{'components':[{'type':'helpers.SimpleComponent','args':['${helpers.SimpleComponent} trailing', 'x${a}', '$${a}', ['${json}'], '$res{w}x']}]}]}, open(fn,'w'))
m['w'].clear()
try: w=m['w']; print('C15 odd strings', w.get_components(1)[0].val)
except Exception as ex: print('C15 odd EXC', type(ex).__name__, str(ex)[:300])
