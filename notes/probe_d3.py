import sys; sys.path.insert(0,'/repo')
import desper, gc
from desper import *
@event_handler('on_update')
class K:
    def __init__(s,name,w,log): s.name=name; s.w=w; s.log=log; s.victims=[]
    def on_update(s,dt):
        s.log.append(None if s is None else s.name)
        for v in s.victims: s.w.remove_component(v, K)
        s.victims=[]
hits=0
for trial in range(40):
    w=World(); log=[]
    ks=[K(i,w,log) for i in range(4)]
    es=[w.create_entity(k) for k in ks]
    ks[0].victims=es[1:]
    keep=ks[0]; del ks
    try:
        w.dispatch('on_update',1.0)
    except Exception as ex:
        hits+=1
        if hits==1: print('C10 EXC',type(ex).__name__,ex,log)
print('C10 hits',hits,'/40')
# weak: world never keeps handler alive
import weakref
w=World(); 
@event_handler('probe')
class P:
    def probe(s): pass
p=P(); r=weakref.ref(p); w.add_handler(p); del p; gc.collect(); print('C10 weak ok', r() is None, len(w._handlers))
w.dispatch('probe')
