import sys; sys.path.insert(0,'/repo')
import desper
from desper import *
log=[]
W={}
def wid(w): return W.setdefault(id(w), 'W%d'%len(W)) if w is not None else None
@event_handler('on_switch_in','on_switch_out','on_add','on_world_load','on_update','on_quit')
class C:
    def __init__(s,name,plan): s.name=name; s.plan=plan
    def on_switch_in(s,f,t): log.append((s.name,'in',wid(f),wid(t)))
    def on_switch_out(s,f,t): log.append((s.name,'out',wid(f),wid(t)))
    def on_add(s,e,w): s.w=w; log.append((s.name,'add',wid(w)))
    def on_world_load(s,h,w): log.append((s.name,'load',wid(w)))
    def on_quit(s): log.append((s.name,'quit'))
    def on_update(s,dt):
        log.append((s.name,'update',dt))
        if s.plan:
            act=s.plan.pop(0)
            if act: act(s)
class P(Processor):
    def __init__(s,name): s.name=name
    def process(s,dt): log.append((s.name,'process',wid(s.world),dt))
class WH(WorldHandle):
    def __init__(s,name,plan,coplan=None):
        super().__init__(); s.name=name
        def tf(h,w):
            wid(w); log.append((name,'LOADING',wid(w)))
            w.add_processor(OnUpdateProcessor()); w.add_processor(CoroutineProcessor(), priority=1); w.add_processor(P(name), priority=2)
            w.create_entity(C(name,list(plan)))
            if coplan:
                def co():
                    for a in coplan:
                        log.append((name,'co'))
                        if a: a(w)
                        yield
                w.get_processor(CoroutineProcessor).start(co())
        s.transform_functions.append(tf)
hs={}
def sw(target,**kw): return lambda s: switch(hs[target], from_world=getattr(s,'w',s), **kw)
def q(s): quit_loop(s.w)
hs['A']=WH('A',[None, sw('B'), None, q])
hs['B']=WH('B',[None, sw('A'), q], coplan=None)
ts=iter(range(100))
loop=SimpleLoop(lambda: next(ts)); loop.switch(hs['A'])
loop.start()
for l in log: print(l)
print('--- from coroutine')
log.clear(); W.clear()
hs['A']=WH('A',[None,None,None,q], coplan=[None, lambda w: switch(hs['B'], from_world=w), None])
hs['B']=WH('B',[None, sw('A'), q])
ts=iter(range(100)); loop=SimpleLoop(lambda: next(ts)); loop.switch(hs['A']); loop.start()
for l in log: print(l)
