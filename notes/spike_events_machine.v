From Coq Require Import ZArith List Bool Lia Permutation.
Import ListNotations.
Open Scope Z_scope.

(* ---------- values ---------- *)
Definition hid := Z. Definition ev := Z. Definition tok := Z. Definition meth := Z. Definition cls := Z.

Inductive action :=
| AAdd (h : hid) | ARemove (h : hid) | ADispatch (e : ev) (t : tok).

(* one entry of the implementation's log *)
Inductive entry :=
| EAct (a : action)                 (* a script / top-level action is about to run *)
| ECall (h : hid) (m : meth) (t : tok)
| ERet                              (* callback returned *)
| EEnd (t : tok).                   (* dispatch t returned *)

Definition action_eqb (a b : action) : bool :=
  match a, b with
  | AAdd h, AAdd h' => h =? h'
  | ARemove h, ARemove h' => h =? h'
  | ADispatch e t, ADispatch e' t' => (e =? e') && (t =? t')
  | _, _ => false
  end.

(* ---------- parameters: classes and scripts ---------- *)
Record params := {
  events_of : hid -> list (ev * meth);          (* __events__ of the handler's class *)
  script    : hid -> meth -> list action;        (* what the callback does *)
}.

(* ---------- model state: the two tables of EventDispatcher ---------- *)
Definition pairb (x y : hid * meth) := (fst x =? fst y) && (snd x =? snd y).
Fixpoint mem (x : hid * meth) (l : list (hid * meth)) :=
  match l with [] => false | y :: l => pairb x y || mem x l end.
Fixpoint remove1 (x : hid * meth) (l : list (hid * meth)) :=
  match l with [] => [] | y :: l => if pairb x y then remove1 x l else y :: remove1 x l end.
Definition set_add x l := if mem x l then l else l ++ [x].

Fixpoint alookup {A} (k : Z) (l : list (Z * A)) : option A :=
  match l with [] => None | (k', v) :: l => if k =? k' then Some v else alookup k l end.
Fixpoint aset {A} (k : Z) (v : A) (l : list (Z * A)) : list (Z * A) :=
  match l with [] => [(k, v)] | (k', v') :: l => if k =? k' then (k, v) :: l else (k', v') :: aset k v l end.
Fixpoint adel {A} (k : Z) (l : list (Z * A)) : list (Z * A) :=
  match l with [] => [] | (k', v') :: l => if k =? k' then adel k l else (k', v') :: adel k l end.

Record tables := {
  t_events   : list (ev * list (hid * meth));      (* _events *)
  t_handlers : list (hid * list (ev * meth));      (* _handlers *)
}.

Definition add_handler (p : params) (h : hid) (s : tables) : tables :=
  let evs := events_of p h in
  {| t_events := fold_left (fun acc em =>
        let cur := match alookup (fst em) acc with Some l => l | None => [] end in
        aset (fst em) (set_add (h, snd em) cur) acc) evs (t_events s);
     t_handlers := aset h evs (t_handlers s) |}.

Definition remove_handler (h : hid) (s : tables) : tables :=
  match alookup h (t_handlers s) with
  | None => s
  | Some evs =>
    {| t_events := fold_left (fun acc em =>
          match alookup (fst em) acc with
          | Some l => aset (fst em) (remove1 (h, snd em) l) acc
          | None => acc end) evs (t_events s);
       t_handlers := adel h (t_handlers s) |}
  end.

(* ---------- the log-driven machine ---------- *)
Inductive frame :=
| FScript (rest : list action)                      (* a script (or the top-level op list) being executed *)
| FDispatch (t : tok) (remaining : list (hid * meth)).

Record mstate := { tabs : tables; stack : list frame }.

Definition step (p : params) (s : mstate) (e : entry) : option mstate :=
  match e, stack s with
  | EAct a, FScript (a' :: rest) :: stk =>
      if action_eqb a a' then
        match a with
        | AAdd h => Some {| tabs := add_handler p h (tabs s); stack := FScript rest :: stk |}
        | ARemove h => Some {| tabs := remove_handler h (tabs s); stack := FScript rest :: stk |}
        | ADispatch e t =>
            let snap := match alookup e (t_events (tabs s)) with Some l => l | None => [] end in
            Some {| tabs := tabs s; stack := FDispatch t snap :: FScript rest :: stk |}
        end
      else None
  | ECall h m t, FDispatch t' rem :: stk =>
      if (t =? t') && mem (h, m) rem then
        Some {| tabs := tabs s; stack := FScript (script p h m) :: FDispatch t' (remove1 (h, m) rem) :: stk |}
      else None
  | ERet, FScript [] :: (FDispatch t rem :: stk) =>
      Some {| tabs := tabs s; stack := FDispatch t rem :: stk |}
  | EEnd t, FDispatch t' [] :: stk =>
      if t =? t' then Some {| tabs := tabs s; stack := stk |} else None
  | _, _ => None
  end.

Fixpoint run (p : params) (s : mstate) (log : list entry) : option mstate :=
  match log with
  | [] => Some s
  | e :: log => match step p s e with Some s' => run p s' log | None => None end
  end.

Definition accepts (p : params) (ops : list action) (log : list entry) : bool :=
  match run p {| tabs := {| t_events := []; t_handlers := [] |}; stack := [FScript ops] |} log with
  | Some {| tabs := _; stack := [FScript []] |} => true
  | _ => false
  end.

(* ---------- the property, on the log alone ---------- *)
(* spec state: registered handlers (a set), open dispatches: token -> calls still owed *)
Record sstate := { reg : list hid; owed : list (tok * list (hid * meth)) }.

Definition listeners (p : params) (e : ev) (regs : list hid) : list (hid * meth) :=
  flat_map (fun h => map (fun em => (h, snd em)) (filter (fun em => fst em =? e) (events_of p h))) regs.

Definition hadd (h : hid) (l : list hid) := if existsb (Z.eqb h) l then l else l ++ [h].
Definition hdel (h : hid) (l : list hid) := filter (fun x => negb (x =? h)) l.

Definition sstep (p : params) (s : sstate) (e : entry) : option sstate :=
  match e with
  | EAct (AAdd h) => Some {| reg := hadd h (reg s); owed := owed s |}
  | EAct (ARemove h) => Some {| reg := hdel h (reg s); owed := owed s |}
  | EAct (ADispatch e t) =>
      match alookup t (owed s) with
      | Some _ => None                           (* tokens are unique *)
      | None => Some {| reg := reg s; owed := aset t (listeners p e (reg s)) (owed s) |}
      end
  | ECall h m t =>
      match alookup t (owed s) with
      | Some l => if mem (h, m) l then Some {| reg := reg s; owed := aset t (remove1 (h, m) l) (owed s) |} else None
      | None => None
      end
  | ERet => Some s
  | EEnd t =>
      match alookup t (owed s) with
      | Some [] => Some {| reg := reg s; owed := adel t (owed s) |}
      | _ => None
      end
  end.

Fixpoint srun p s log :=
  match log with [] => Some s | e :: log => match sstep p s e with Some s' => srun p s' log | None => None end end.

Definition holds_b (p : params) (log : list entry) : bool :=
  match srun p {| reg := []; owed := [] |} log with
  | Some {| reg := _; owed := [] |} => true
  | _ => false
  end.

(* ---------- a concrete re-entrant example ---------- *)
Definition P : params := {|
  events_of := fun h => if h =? 3 then [(10, 1); (11, 2)] else [(10, 1)];
  script := fun h m => if (h =? 1) && (m =? 1) then [ARemove 2; ADispatch 11 101] else [] |}.
Definition ops := [AAdd 1; AAdd 2; AAdd 3; AAdd 2; ADispatch 10 100; ADispatch 10 102].
Definition P2 : params := {|
  events_of := events_of P;
  script := fun h m => if (h =? 1) && (m =? 1) then [ARemove 2] else [] |}.
(* handler 1's callback removes handler 2 in the middle of dispatch 100: 2 is still called (snapshot),
   but not by dispatch 102 *)
Definition log_ok := [EAct (AAdd 1); EAct (AAdd 2); EAct (AAdd 3); EAct (AAdd 2); EAct (ADispatch 10 100);
  ECall 3 1 100; ERet; ECall 1 1 100; EAct (ARemove 2); ERet; ECall 2 1 100; ERet; EEnd 100;
  EAct (ADispatch 10 102); ECall 1 1 102; EAct (ARemove 2); ERet; ECall 3 1 102; ERet; EEnd 102].
(* an implementation that delivers twice after double registration *)
Definition log_dup := [EAct (AAdd 1); EAct (AAdd 2); EAct (AAdd 3); EAct (AAdd 2); EAct (ADispatch 10 100);
  ECall 3 1 100; ERet; ECall 1 1 100; EAct (ARemove 2); ERet; ECall 2 1 100; ERet; ECall 2 1 100; ERet; EEnd 100].
(* an implementation that forgets listener 3 *)
Definition log_miss := [EAct (AAdd 1); EAct (AAdd 2); EAct (AAdd 3); EAct (AAdd 2); EAct (ADispatch 10 100);
  ECall 1 1 100; EAct (ARemove 2); ERet; ECall 2 1 100; ERet; EEnd 100].
Eval vm_compute in (accepts P2 ops log_ok, holds_b P2 log_ok, accepts P2 ops log_dup, holds_b P2 log_dup, accepts P2 ops log_miss, holds_b P2 log_miss).
