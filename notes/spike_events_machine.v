(* DESIGN-PHASE SPIKE (not part of the checks): log-driven stack machine for
   EventDispatcher.add_handler / remove_handler / re-entrant dispatch, the
   trace property "every dispatch calls exactly the registered listeners,
   once", and the proof accepts -> holds for all scripts, logs and iteration
   orders.  coqc spike_events_machine.v  (Coq 8.16, stdlib only, ~5 s);
   Print Assumptions at the end says: Closed under the global context. *)
From Coq Require Import ZArith List Bool Lia Permutation.
Import ListNotations.
Open Scope Z_scope.

(* ---------- values ---------- *)
Definition hid := Z. Definition ev := Z. Definition tok := Z. Definition meth := Z. Definition cls := Z.

Inductive action :=
| AAdd (h : hid) | ARemove (h : hid) | ADispatch (e : ev) (t : tok).

(* one entry of the implementation's log *)
Inductive entry :=
| EAct (a : action)                 (* a script / top-level action is about to run *)
| ECall (h : hid) (m : meth) (t : tok)
| ERet                              (* callback returned *)
| EEnd (t : tok).                   (* dispatch t returned *)

Definition action_eqb (a b : action) : bool :=
  match a, b with
  | AAdd h, AAdd h' => h =? h'
  | ARemove h, ARemove h' => h =? h'
  | ADispatch e t, ADispatch e' t' => (e =? e') && (t =? t')
  | _, _ => false
  end.

(* ---------- parameters: classes and scripts ---------- *)
Record params := {
  events_of : hid -> list (ev * meth);          (* __events__ of the handler's class *)
  script    : hid -> meth -> list action;        (* what the callback does *)
}.

(* ---------- model state: the two tables of EventDispatcher ---------- *)
Definition pairb (x y : hid * meth) := (fst x =? fst y) && (snd x =? snd y).
Fixpoint mem (x : hid * meth) (l : list (hid * meth)) :=
  match l with [] => false | y :: l => pairb x y || mem x l end.
Fixpoint remove1 (x : hid * meth) (l : list (hid * meth)) :=
  match l with [] => [] | y :: l => if pairb x y then remove1 x l else y :: remove1 x l end.
Definition set_add x l := if mem x l then l else l ++ [x].

Fixpoint alookup {A} (k : Z) (l : list (Z * A)) : option A :=
  match l with [] => None | (k', v) :: l => if k =? k' then Some v else alookup k l end.
Fixpoint aset {A} (k : Z) (v : A) (l : list (Z * A)) : list (Z * A) :=
  match l with [] => [(k, v)] | (k', v') :: l => if k =? k' then (k, v) :: l else (k', v') :: aset k v l end.
Fixpoint adel {A} (k : Z) (l : list (Z * A)) : list (Z * A) :=
  match l with [] => [] | (k', v') :: l => if k =? k' then adel k l else (k', v') :: adel k l end.

Record tables := {
  t_events   : list (ev * list (hid * meth));      (* _events *)
  t_handlers : list (hid * list (ev * meth));      (* _handlers *)
}.

Definition add_handler (p : params) (h : hid) (s : tables) : tables :=
  let evs := events_of p h in
  {| t_events := fold_left (fun acc em =>
        let cur := match alookup (fst em) acc with Some l => l | None => [] end in
        aset (fst em) (set_add (h, snd em) cur) acc) evs (t_events s);
     t_handlers := aset h evs (t_handlers s) |}.

Definition remove_handler (h : hid) (s : tables) : tables :=
  match alookup h (t_handlers s) with
  | None => s
  | Some evs =>
    {| t_events := fold_left (fun acc em =>
          match alookup (fst em) acc with
          | Some l => aset (fst em) (remove1 (h, snd em) l) acc
          | None => acc end) evs (t_events s);
       t_handlers := adel h (t_handlers s) |}
  end.

(* ---------- the log-driven machine ---------- *)
Inductive frame :=
| FScript (rest : list action)                      (* a script (or the top-level op list) being executed *)
| FDispatch (t : tok) (remaining : list (hid * meth)).

Record mstate := { tabs : tables; stack : list frame }.

Definition step (p : params) (s : mstate) (e : entry) : option mstate :=
  match e, stack s with
  | EAct a, FScript (a' :: rest) :: stk =>
      if action_eqb a a' then
        match a with
        | AAdd h => Some {| tabs := add_handler p h (tabs s); stack := FScript rest :: stk |}
        | ARemove h => Some {| tabs := remove_handler h (tabs s); stack := FScript rest :: stk |}
        | ADispatch e t =>
            let snap := match alookup e (t_events (tabs s)) with Some l => l | None => [] end in
            Some {| tabs := tabs s; stack := FDispatch t snap :: FScript rest :: stk |}
        end
      else None
  | ECall h m t, FDispatch t' rem :: stk =>
      if (t =? t') && mem (h, m) rem then
        Some {| tabs := tabs s; stack := FScript (script p h m) :: FDispatch t' (remove1 (h, m) rem) :: stk |}
      else None
  | ERet, FScript [] :: (FDispatch t rem :: stk) =>
      Some {| tabs := tabs s; stack := FDispatch t rem :: stk |}
  | EEnd t, FDispatch t' [] :: stk =>
      if t =? t' then Some {| tabs := tabs s; stack := stk |} else None
  | _, _ => None
  end.

Fixpoint run (p : params) (s : mstate) (log : list entry) : option mstate :=
  match log with
  | [] => Some s
  | e :: log => match step p s e with Some s' => run p s' log | None => None end
  end.

Definition accepts (p : params) (ops : list action) (log : list entry) : bool :=
  match run p {| tabs := {| t_events := []; t_handlers := [] |}; stack := [FScript ops] |} log with
  | Some {| tabs := _; stack := [FScript []] |} => true
  | _ => false
  end.

(* ---------- the property, on the log alone ---------- *)
(* spec state: registered handlers (a set), open dispatches: token -> calls still owed *)
Record sstate := { reg : list hid; owed : list (tok * list (hid * meth)) }.

Definition listeners (p : params) (e : ev) (regs : list hid) : list (hid * meth) :=
  flat_map (fun h => map (fun em => (h, snd em)) (filter (fun em => fst em =? e) (events_of p h))) regs.

Definition hadd (h : hid) (l : list hid) := if existsb (Z.eqb h) l then l else l ++ [h].
Definition hdel (h : hid) (l : list hid) := filter (fun x => negb (x =? h)) l.

Definition sstep (p : params) (s : sstate) (e : entry) : option sstate :=
  match e with
  | EAct (AAdd h) => Some {| reg := hadd h (reg s); owed := owed s |}
  | EAct (ARemove h) => Some {| reg := hdel h (reg s); owed := owed s |}
  | EAct (ADispatch e t) =>
      match alookup t (owed s) with
      | Some _ => None                           (* tokens are unique *)
      | None => Some {| reg := reg s; owed := aset t (listeners p e (reg s)) (owed s) |}
      end
  | ECall h m t =>
      match alookup t (owed s) with
      | Some l => if mem (h, m) l then Some {| reg := reg s; owed := aset t (remove1 (h, m) l) (owed s) |} else None
      | None => None
      end
  | ERet => Some s
  | EEnd t =>
      match alookup t (owed s) with
      | Some [] => Some {| reg := reg s; owed := adel t (owed s) |}
      | _ => None
      end
  end.

Fixpoint srun p s log :=
  match log with [] => Some s | e :: log => match sstep p s e with Some s' => srun p s' log | None => None end end.

Definition holds_b (p : params) (log : list entry) : bool :=
  match srun p {| reg := []; owed := [] |} log with
  | Some {| reg := _; owed := [] |} => true
  | _ => false
  end.


(* ================= proof ================= *)
Definition evl (t : tables) (e : ev) := match alookup e (t_events t) with Some l => l | None => [] end.
Definition inb (h : hid) (l : list hid) := existsb (Z.eqb h) l.
Fixpoint frames_owed (stk : list frame) : list (tok * list (hid * meth)) :=
  match stk with
  | [] => []
  | FScript _ :: stk => frames_owed stk
  | FDispatch t rem :: stk => (t, rem) :: frames_owed stk
  end.

Definition keys_nodup (p : params) := forall h, NoDup (map fst (events_of p h)).

(* generic alist lemmas *)
Lemma alookup_aset_eq {A} k (v : A) l : alookup k (aset k v l) = Some v.
Proof. induction l as [|[k' v'] l IH]; simpl; [rewrite Z.eqb_refl; reflexivity|].
  destruct (k =? k') eqn:E; simpl; [rewrite Z.eqb_refl; reflexivity | rewrite E; exact IH]. Qed.
Lemma alookup_aset_neq {A} k k' (v : A) l : k' <> k -> alookup k' (aset k v l) = alookup k' l.
Proof. intro N. induction l as [|[k2 v2] l IH]; simpl.
  - destruct (k' =? k) eqn:E; [apply Z.eqb_eq in E; contradiction | reflexivity].
  - destruct (k =? k2) eqn:E; simpl.
    + apply Z.eqb_eq in E; subst k2. destruct (k' =? k) eqn:E2; [apply Z.eqb_eq in E2; contradiction | reflexivity].
    + destruct (k' =? k2); [reflexivity | exact IH]. Qed.
Lemma alookup_adel_eq {A} k (l : list (Z * A)) : alookup k (adel k l) = None.
Proof. induction l as [|[k' v'] l IH]; simpl; [reflexivity|]. destruct (k =? k') eqn:E; [exact IH | simpl; rewrite E; exact IH]. Qed.
Lemma alookup_adel_neq {A} k k' (l : list (Z * A)) : k' <> k -> alookup k' (adel k l) = alookup k' l.
Proof. intro N. induction l as [|[k2 v2] l IH]; simpl; [reflexivity|]. destruct (k =? k2) eqn:E.
  - apply Z.eqb_eq in E; subst k2. destruct (k' =? k) eqn:E2; [apply Z.eqb_eq in E2; contradiction | exact IH].
  - simpl. destruct (k' =? k2); [reflexivity | exact IH]. Qed.

(* the frame side of the invariant *)
Definition frames_ok (stk : list frame) (n : tok) : Prop :=
  NoDup (map fst (frames_owed stk)) /\ forall t, In t (map fst (frames_owed stk)) -> t < n.

Record Rel (p : params) (m : mstate) (n : tok) (s : sstate) : Prop := {
  r_ev : forall e, evl (tabs m) e = listeners p e (reg s);
  r_hd : forall h, alookup h (t_handlers (tabs m)) = if inb h (reg s) then Some (events_of p h) else None;
  r_ow : forall t, alookup t (owed s) = alookup t (frames_owed (stack m));
  r_fr : frames_ok (stack m) n;
}.


(* ---------- table lemmas ---------- *)
Definition look (acc : list (ev * list (hid * meth))) (e : ev) := match alookup e acc with Some l => l | None => [] end.
Definition pick (e : ev) (evs : list (ev * meth)) := filter (fun em => fst em =? e) evs.

Lemma look_aset k v acc e : look (aset k v acc) e = if e =? k then v else look acc e.
Proof. unfold look. destruct (e =? k) eqn:E.
  - apply Z.eqb_eq in E. subst. rewrite alookup_aset_eq. reflexivity.
  - apply Z.eqb_neq in E. rewrite alookup_aset_neq by exact E. reflexivity. Qed.

Lemma fold_add_look h evs : forall acc e,
  look (fold_left (fun acc em => aset (fst em) (set_add (h, snd em) (look acc (fst em))) acc) evs acc) e
  = fold_left (fun cur em => set_add (h, snd em) cur) (pick e evs) (look acc e).
Proof.
  induction evs as [|[k m] evs IH]; intros acc e; simpl; [reflexivity|].
  rewrite IH. rewrite look_aset. rewrite (Z.eqb_sym e k).
  destruct (k =? e) eqn:E; simpl; [apply Z.eqb_eq in E; subst; reflexivity | reflexivity].
Qed.

Lemma pick_small e evs : NoDup (map fst evs) -> pick e evs = [] \/ exists m, pick e evs = [(e, m)].
Proof.
  induction evs as [|[k m] evs IH]; simpl; intro N; [left; reflexivity|].
  inversion N as [|? ? Hni N']; subst. destruct (k =? e) eqn:E.
  - apply Z.eqb_eq in E. subst k. right. exists m. f_equal.
    assert (H : forall l, ~ In e (map fst l) -> pick e l = []).
    { induction l as [|[k2 m2] l IHl]; simpl; intro Hn; [reflexivity|].
      destruct (k2 =? e) eqn:E2; [apply Z.eqb_eq in E2; subst; exfalso; apply Hn; left; reflexivity|].
      apply IHl. intro I. apply Hn. right. exact I. }
    apply H. exact Hni.
  - apply IH. exact N'.
Qed.

Lemma mem_app x l1 l2 : mem x (l1 ++ l2) = mem x l1 || mem x l2.
Proof. induction l1 as [|y l1 IH]; simpl; [reflexivity|]. rewrite IH. apply orb_assoc. Qed.

Definition contrib (p : params) (e : ev) (h : hid) := map (fun em => (h, snd em)) (pick e (events_of p h)).
Lemma listeners_eq p e regs : listeners p e regs = flat_map (contrib p e) regs.
Proof. reflexivity. Qed.

Lemma mem_contrib p e h x : mem x (contrib p e h) = true -> fst x = h.
Proof. unfold contrib. induction (pick e (events_of p h)) as [|em l IH]; simpl; [discriminate|].
  intro H. apply orb_true_iff in H. destruct H as [H|H]; [|exact (IH H)].
  unfold pairb in H. apply andb_true_iff in H. destruct H as [H _]. apply Z.eqb_eq in H. exact H. Qed.

Arguments pick : simpl never.
Arguments contrib : simpl never.
Lemma mem_listeners_fst p e regs x : mem x (listeners p e regs) = true -> inb (fst x) regs = true.
Proof. rewrite listeners_eq. induction regs as [|h regs IH]; simpl; [discriminate|]. rewrite mem_app. intro H.
  apply orb_true_iff in H. destruct H as [H|H].
  - apply mem_contrib in H. rewrite H. rewrite Z.eqb_refl. reflexivity.
  - rewrite (IH H). apply orb_true_r. Qed.

Lemma pairb_refl x : pairb x x = true.
Proof. unfold pairb. rewrite !Z.eqb_refl. reflexivity. Qed.

Lemma mem_listeners_in p e regs h m :
  inb h regs = true -> pick e (events_of p h) = [(e, m)] -> mem (h, m) (listeners p e regs) = true.
Proof. rewrite listeners_eq. induction regs as [|h' regs IH]; simpl; [discriminate|]. intros Hin Hp. rewrite mem_app.
  destruct (h =? h') eqn:E.
  - apply Z.eqb_eq in E. subst h'. unfold contrib. rewrite Hp. simpl. rewrite pairb_refl. reflexivity.
  - simpl in Hin. rewrite (IH Hin Hp). apply orb_true_r. Qed.

Lemma inb_hadd h' h regs : inb h' (hadd h regs) = inb h' regs || (h' =? h).
Proof. unfold hadd. fold (inb h regs). destruct (inb h regs) eqn:E.
  - destruct (h' =? h) eqn:E2; [apply Z.eqb_eq in E2; subst; rewrite E; reflexivity | rewrite orb_false_r; reflexivity].
  - unfold inb. rewrite existsb_app. simpl. rewrite orb_false_r. reflexivity. Qed.

Lemma add_handler_ok p : keys_nodup p -> forall T regs h,
  (forall e, evl T e = listeners p e regs) ->
  (forall h', alookup h' (t_handlers T) = if inb h' regs then Some (events_of p h') else None) ->
  (forall e, evl (add_handler p h T) e = listeners p e (hadd h regs)) /\
  (forall h', alookup h' (t_handlers (add_handler p h T)) = if inb h' (hadd h regs) then Some (events_of p h') else None).
Proof.
  intros K T regs h Rev Rhd. split.
  - intro e. unfold evl, add_handler. simpl.
    change (look (fold_left (fun acc em => aset (fst em) (set_add (h, snd em) (look acc (fst em))) acc) (events_of p h) (t_events T)) e
            = listeners p e (hadd h regs)).
    rewrite fold_add_look. change (look (t_events T) e) with (evl T e). rewrite Rev.
    unfold hadd. fold (inb h regs). destruct (inb h regs) eqn:Ein.
    + destruct (pick_small e _ (K h)) as [Hp|[m Hp]]; rewrite Hp; simpl; [reflexivity|].
      unfold set_add. rewrite (mem_listeners_in p e regs h m Ein Hp). reflexivity.
    + rewrite (listeners_eq p e (regs ++ [h])), flat_map_app. simpl. rewrite app_nil_r. rewrite <- (listeners_eq p e regs). unfold contrib.
      destruct (pick_small e _ (K h)) as [Hp|[m Hp]]; rewrite Hp; simpl; [rewrite app_nil_r; reflexivity|].
      unfold set_add. destruct (mem (h, m) (listeners p e regs)) eqn:Em; [|reflexivity].
      apply mem_listeners_fst in Em. simpl in Em. rewrite Em in Ein. discriminate.
  - intro h'. unfold add_handler. simpl. rewrite inb_hadd. destruct (h' =? h) eqn:E.
    + apply Z.eqb_eq in E. subst h'. rewrite alookup_aset_eq. rewrite orb_true_r. reflexivity.
    + apply Z.eqb_neq in E. rewrite alookup_aset_neq by exact E. rewrite orb_false_r. apply Rhd.
Qed.

Lemma fold_rem_look h evs : forall acc e,
  look (fold_left (fun acc em => match alookup (fst em) acc with
                                  | Some l => aset (fst em) (remove1 (h, snd em) l) acc
                                  | None => acc end) evs acc) e
  = fold_left (fun cur em => remove1 (h, snd em) cur) (pick e evs) (look acc e).
Proof.
  induction evs as [|[k m] evs IH]; intros acc e; [reflexivity|].
  cbn [fold_left fst snd]. rewrite IH. unfold pick. cbn [filter fst]. fold (pick e evs).
  destruct (alookup k acc) as [l|] eqn:El.
  - rewrite look_aset. rewrite (Z.eqb_sym e k). destruct (k =? e) eqn:E; cbn [fold_left snd]; [|reflexivity].
    apply Z.eqb_eq in E. subst k. unfold look. rewrite El. reflexivity.
  - destruct (k =? e) eqn:E; cbn [fold_left snd]; [|reflexivity].
    apply Z.eqb_eq in E. subst k. unfold look. rewrite El. reflexivity.
Qed.

Lemma remove1_app x l1 l2 : remove1 x (l1 ++ l2) = remove1 x l1 ++ remove1 x l2.
Proof. induction l1 as [|y l1 IH]; simpl; [reflexivity|]. destruct (pairb x y); [exact IH | simpl; f_equal; exact IH]. Qed.

Lemma remove1_other p e h h' m : h <> h' -> remove1 (h, m) (contrib p e h') = contrib p e h'.
Proof. intro N. unfold contrib. induction (pick e (events_of p h')) as [|em l IH]; simpl; [reflexivity|].
  unfold pairb at 1. simpl. destruct (h =? h') eqn:E; [apply Z.eqb_eq in E; contradiction|]. simpl. f_equal. exact IH. Qed.

Lemma hdel_cons h h' regs : hdel h (h' :: regs) = if h' =? h then hdel h regs else h' :: hdel h regs.
Proof. unfold hdel. simpl. destruct (h' =? h); reflexivity. Qed.

Lemma listeners_hdel_single p e h m regs :
  pick e (events_of p h) = [(e, m)] -> remove1 (h, m) (listeners p e regs) = listeners p e (hdel h regs).
Proof. intro Hp. rewrite !listeners_eq. induction regs as [|h' regs IH]; [reflexivity|].
  rewrite hdel_cons. cbn [flat_map]. rewrite remove1_app, IH. destruct (h' =? h) eqn:E.
  - apply Z.eqb_eq in E. subst h'. unfold contrib at 1. rewrite Hp. simpl. rewrite pairb_refl. reflexivity.
  - apply Z.eqb_neq in E. rewrite remove1_other by (intro X; apply E; symmetry; exact X). reflexivity. Qed.

Lemma listeners_hdel_none p e h regs :
  pick e (events_of p h) = [] -> listeners p e regs = listeners p e (hdel h regs).
Proof. intro Hp. rewrite !listeners_eq. induction regs as [|h' regs IH]; [reflexivity|].
  rewrite hdel_cons. cbn [flat_map]. rewrite IH. destruct (h' =? h) eqn:E; [|reflexivity].
  apply Z.eqb_eq in E. subst h'. unfold contrib at 1. rewrite Hp. reflexivity. Qed.

Arguments hdel : simpl never.
Lemma hdel_absent h regs : inb h regs = false -> hdel h regs = regs.
Proof. induction regs as [|h' regs IH]; [reflexivity|]. intro H. unfold inb in H. simpl in H. apply orb_false_iff in H. destruct H as [H1 H2].
  rewrite hdel_cons. rewrite (Z.eqb_sym h' h), H1. f_equal. exact (IH H2). Qed.

Lemma inb_hdel h' h regs : inb h' (hdel h regs) = inb h' regs && negb (h' =? h).
Proof. induction regs as [|x regs IH]; [reflexivity|]. rewrite hdel_cons. destruct (x =? h) eqn:E.
  - apply Z.eqb_eq in E. subst x. rewrite IH. unfold inb at 2. simpl. fold (inb h' regs).
    destruct (h' =? h); simpl; [rewrite andb_false_r; reflexivity | reflexivity].
  - unfold inb at 1 2. simpl. fold (inb h' (hdel h regs)). fold (inb h' regs). rewrite IH.
    destruct (h' =? x) eqn:E2; simpl; [|reflexivity].
    apply Z.eqb_eq in E2. subst x. rewrite E. reflexivity. Qed.

Lemma remove_handler_ok p : keys_nodup p -> forall T regs h,
  (forall e, evl T e = listeners p e regs) ->
  (forall h', alookup h' (t_handlers T) = if inb h' regs then Some (events_of p h') else None) ->
  (forall e, evl (remove_handler h T) e = listeners p e (hdel h regs)) /\
  (forall h', alookup h' (t_handlers (remove_handler h T)) = if inb h' (hdel h regs) then Some (events_of p h') else None).
Proof.
  intros K T regs h Rev Rhd. unfold remove_handler. pose proof (Rhd h) as Rh.
  destruct (inb h regs) eqn:Ein; rewrite Rh.
  - split.
    + intro e. unfold evl. cbn [t_events].
      change (look (fold_left (fun acc em => match alookup (fst em) acc with
                                  | Some l => aset (fst em) (remove1 (h, snd em) l) acc
                                  | None => acc end) (events_of p h) (t_events T)) e = listeners p e (hdel h regs)).
      rewrite fold_rem_look. change (look (t_events T) e) with (evl T e). rewrite Rev.
      destruct (pick_small e _ (K h)) as [Hp|[m Hp]]; rewrite Hp; cbn [fold_left snd].
      * apply listeners_hdel_none. exact Hp.
      * apply listeners_hdel_single. exact Hp.
    + intro h'. cbn [t_handlers]. rewrite inb_hdel. destruct (h' =? h) eqn:E.
      * apply Z.eqb_eq in E. subst h'. rewrite alookup_adel_eq. rewrite andb_false_r. reflexivity.
      * apply Z.eqb_neq in E. rewrite alookup_adel_neq by exact E. rewrite andb_true_r. apply Rhd.
  - rewrite (hdel_absent h regs Ein). split; assumption.
Qed.
(* token discipline of the harness: dispatch tokens are n, n+1, ... in log order *)
Definition tok_after (n : tok) (e : entry) : tok := match e with EAct (ADispatch _ _) => n + 1 | _ => n end.
Definition tok_ok (n : tok) (e : entry) : Prop := match e with EAct (ADispatch _ t) => t = n | _ => True end.
Fixpoint toks_from (n : tok) (log : list entry) : Prop :=
  match log with [] => True | e :: log => tok_ok n e /\ toks_from (tok_after n e) log end.

Section Sim.
Variable p : params.

(* The two table lemmas (the dict/set reasoning about add_handler / remove_handler);
   in this spike they are section hypotheses, to be proved in coq/theories/Events. *)
Hypothesis Hkeys : keys_nodup p.
Let add_handler_ok := add_handler_ok p Hkeys.
Let remove_handler_ok := remove_handler_ok p Hkeys.

Lemma frames_ok_mono stk n n' : frames_ok stk n -> n <= n' -> frames_ok stk n'.
Proof. intros [H1 H2] L. split; [exact H1|]. intros t Ht. specialize (H2 t Ht). lia. Qed.

Lemma not_in_lookup_none {A} t (l : list (Z * A)) : ~ In t (map fst l) -> alookup t l = None.
Proof. induction l as [|[k v] l IH]; simpl; [reflexivity|]. intro N. destruct (t =? k) eqn:E.
  - apply Z.eqb_eq in E. subst. exfalso. apply N. left. reflexivity.
  - apply IH. intro I. apply N. right. exact I. Qed.

Lemma step_sim m n s e m' :
  Rel p m n s -> tok_ok n e -> step p m e = Some m' ->
  exists s', sstep p s e = Some s' /\ Rel p m' (tok_after n e) s'.
Proof.
  intros [Rev Rhd Row Rfr] Htok Hstep.
  destruct m as [T stk]. simpl in *.
  destruct e as [a | h mm t | | t]; simpl in Hstep.
  - (* EAct *)
    destruct stk as [|[[|a' rest]|] stk]; try discriminate.
    destruct (action_eqb a a') eqn:Ea; try discriminate.
    destruct a as [h|h|e t]; inversion Hstep; subst; clear Hstep; simpl.
    + eexists; split; [reflexivity|]. destruct (add_handler_ok T (reg s) h Rev Rhd) as [A1 A2].
      constructor; simpl; auto.
    + eexists; split; [reflexivity|]. destruct (remove_handler_ok T (reg s) h Rev Rhd) as [A1 A2].
      constructor; simpl; auto.
    + simpl in Htok. subst t.
      assert (Hnone : alookup n (owed s) = None).
      { rewrite Row. apply not_in_lookup_none. intro I. destruct Rfr as [_ Hlt]. specialize (Hlt n I). lia. }
      rewrite Hnone. eexists; split; [reflexivity|].
      constructor; simpl; auto.
      * intro t. destruct (t =? n) eqn:E.
        -- apply Z.eqb_eq in E. subst t. rewrite alookup_aset_eq. f_equal. symmetry.
           specialize (Rev e). unfold evl in Rev. exact Rev.
        -- apply Z.eqb_neq in E. rewrite alookup_aset_neq by exact E. apply Row.
      * destruct Rfr as [Hnd Hlt]. split; simpl.
        -- constructor; [|exact Hnd]. intro I. specialize (Hlt n I). lia.
        -- intros t [Ht|Ht]; [lia | specialize (Hlt t Ht); lia].
  - (* ECall *)
    destruct stk as [|[|t' rem] stk]; try discriminate.
    destruct ((t =? t') && mem (h, mm) rem) eqn:Ec; try discriminate.
    apply andb_true_iff in Ec. destruct Ec as [Et Em]. apply Z.eqb_eq in Et. subst t'.
    inversion Hstep; subst; clear Hstep. simpl in *.
    pose proof (Row t) as Rt. simpl in Rt. rewrite Z.eqb_refl in Rt. rewrite Rt, Em.
    eexists; split; [reflexivity|]. constructor; simpl; auto.
    + intro t0. destruct (t0 =? t) eqn:E.
      * apply Z.eqb_eq in E. subst. rewrite alookup_aset_eq. reflexivity.
      * pose proof (Row t0) as R0. simpl in R0. rewrite E in R0.
        apply Z.eqb_neq in E. rewrite alookup_aset_neq by exact E. exact R0.
  - (* ERet *)
    destruct stk as [|[[|? ?]|] stk]; try discriminate.
    destruct stk as [|[|t rem] stk]; try discriminate.
    inversion Hstep; subst; clear Hstep. simpl in *.
    eexists; split; [reflexivity|]. constructor; simpl; auto.
  - (* EEnd *)
    destruct stk as [|[|t' [|? ?]] stk]; try discriminate.
    destruct (t =? t') eqn:Et; try discriminate. apply Z.eqb_eq in Et. subst t'.
    inversion Hstep; subst; clear Hstep. simpl in *.
    pose proof (Row t) as Rt. simpl in Rt. rewrite Z.eqb_refl in Rt. rewrite Rt.
    eexists; split; [reflexivity|]. destruct Rfr as [Hnd Hlt]. simpl in Hnd. inversion Hnd as [|? ? Hni Hnd']; subst.
    constructor; simpl; auto.
    + intro t0. destruct (t0 =? t) eqn:E.
      * apply Z.eqb_eq in E. subst. rewrite alookup_adel_eq. symmetry. apply not_in_lookup_none. exact Hni.
      * pose proof (Row t0) as R0. simpl in R0. rewrite E in R0.
        apply Z.eqb_neq in E. rewrite alookup_adel_neq by exact E. exact R0.
    + split; [exact Hnd'|]. intros t0 Ht0. apply Hlt. simpl. right. exact Ht0.
Qed.

Lemma run_sim log : forall m n s m',
  Rel p m n s -> toks_from n log -> run p m log = Some m' ->
  exists n' s', srun p s log = Some s' /\ Rel p m' n' s'.
Proof.
  induction log as [|e log IH]; intros m n s m' HR Ht Hrun; simpl in *.
  - inversion Hrun; subst. exists n, s. split; [reflexivity | exact HR].
  - destruct (step p m e) as [m1|] eqn:Es; [|discriminate]. destruct Ht as [Ht1 Ht2].
    destruct (step_sim _ _ _ _ _ HR Ht1 Es) as [s1 [Hs1 HR1]]. rewrite Hs1.
    exact (IH _ _ _ _ HR1 Ht2 Hrun).
Qed.

Lemma all_none_nil {A} (l : list (Z * A)) : (forall t, alookup t l = None) -> l = [].
Proof. destruct l as [|[k v] l]; [reflexivity|]. intro H. specialize (H k). simpl in H. rewrite Z.eqb_refl in H. discriminate. Qed.

Theorem accepts_holds ops log :
  toks_from 0 log -> accepts p ops log = true -> holds_b p log = true.
Proof.
  intros Ht Ha. unfold accepts in Ha. unfold holds_b.
  destruct (run p {| tabs := {| t_events := []; t_handlers := [] |}; stack := [FScript ops] |} log) as [m'|] eqn:Er; [|discriminate].
  assert (R0 : Rel p {| tabs := {| t_events := []; t_handlers := [] |}; stack := [FScript ops] |} 0 {| reg := []; owed := [] |}).
  { constructor; simpl; auto. split; simpl; [constructor | intros ? []]. }
  destruct (run_sim _ _ _ _ _ R0 Ht Er) as [n' [s' [Hs HR]]]. rewrite Hs.
  destruct m' as [T' stk']. destruct stk' as [|[[|? ?]|] [|? ?]]; try discriminate.
  destruct HR as [_ _ Row _]. simpl in Row. destruct s' as [rg ow]. simpl in *.
  rewrite (all_none_nil ow Row). reflexivity.
Qed.
End Sim.
Check accepts_holds.

Print Assumptions accepts_holds.

(* ---------- a concrete re-entrant example ---------- *)
Definition P : params := {|
  events_of := fun h => if h =? 3 then [(10, 1); (11, 2)] else [(10, 1)];
  script := fun h m => if (h =? 1) && (m =? 1) then [ARemove 2; ADispatch 11 101] else [] |}.
Definition ops := [AAdd 1; AAdd 2; AAdd 3; AAdd 2; ADispatch 10 100; ADispatch 10 102].
Definition P2 : params := {|
  events_of := events_of P;
  script := fun h m => if (h =? 1) && (m =? 1) then [ARemove 2] else [] |}.
(* handler 1's callback removes handler 2 in the middle of dispatch 100: 2 is still called (snapshot),
   but not by dispatch 102 *)
Definition log_ok := [EAct (AAdd 1); EAct (AAdd 2); EAct (AAdd 3); EAct (AAdd 2); EAct (ADispatch 10 100);
  ECall 3 1 100; ERet; ECall 1 1 100; EAct (ARemove 2); ERet; ECall 2 1 100; ERet; EEnd 100;
  EAct (ADispatch 10 102); ECall 1 1 102; EAct (ARemove 2); ERet; ECall 3 1 102; ERet; EEnd 102].
(* an implementation that delivers twice after double registration *)
Definition log_dup := [EAct (AAdd 1); EAct (AAdd 2); EAct (AAdd 3); EAct (AAdd 2); EAct (ADispatch 10 100);
  ECall 3 1 100; ERet; ECall 1 1 100; EAct (ARemove 2); ERet; ECall 2 1 100; ERet; ECall 2 1 100; ERet; EEnd 100].
(* an implementation that forgets listener 3 *)
Definition log_miss := [EAct (AAdd 1); EAct (AAdd 2); EAct (AAdd 3); EAct (AAdd 2); EAct (ADispatch 10 100);
  ECall 1 1 100; EAct (ARemove 2); ERet; ECall 2 1 100; ERet; EEnd 100].
Eval vm_compute in (accepts P2 ops log_ok, holds_b P2 log_ok, accepts P2 ops log_dup, holds_b P2 log_dup, accepts P2 ops log_miss, holds_b P2 log_miss).
