"""Spike: symbolic execution of desper/math.py methods into closed Coq expressions (fail-closed)."""
import ast, sys
SRC='/repo/desper/math.py'
tree=ast.parse(open(SRC).read())
classes={n.name:{f.name:f for f in n.body if isinstance(f,ast.FunctionDef)} for n in tree.body if isinstance(n,ast.ClassDef)}
funcs={n.name:n for n in tree.body if isinstance(n,ast.FunctionDef)}
SIZES={'Vec2':2,'Vec3':3,'Vec4':4,'Mat3':9,'Mat4':16}
class Unsupported(Exception): pass
# symbolic scalar = Coq expression string; vector value = ('Vec3', [exprs]); plain tuple = ('tuple',[..])
class S:  # scalar
    def __init__(s,e): s.e=e
class T:  # typed tuple
    def __init__(s,cls,items): s.cls=cls; s.items=list(items)
class Cond:  # value depending on condition: (cond_expr, then_val, else_val)
    pass
def lit(v):
    if isinstance(v,bool): raise Unsupported('bool')
    if isinstance(v,int): return S(str(v)) if v>=0 else S(f'(-{-v})')
    if isinstance(v,float):
        if v==int(v): return lit(int(v))
        raise Unsupported(f'float literal {v}')
    raise Unsupported(f'literal {v!r}')
def binop(op,a,b):
    if isinstance(a,T) and isinstance(b,T) and isinstance(op,ast.Add): return T('tuple',a.items+b.items)
    if not (isinstance(a,S) and isinstance(b,S)): raise Unsupported('binop on non scalars')
    if isinstance(op,ast.Pow):
        if b.e=='2': return S(f'({a.e} * {a.e})')
        raise Unsupported('pow')
    sym={ast.Add:'+',ast.Sub:'-',ast.Mult:'*',ast.Div:'/'}.get(type(op))
    if sym is None: raise Unsupported(type(op).__name__)
    return S(f'({a.e} {sym} {b.e})')
def ite(c,a,b):
    if isinstance(a,S) and isinstance(b,S): return S(f'(if {c} then {a.e} else {b.e})')
    if isinstance(a,T) and isinstance(b,T) and len(a.items)==len(b.items):
        return T(a.cls if a.cls==b.cls else 'tuple',[ite(c,x,y) for x,y in zip(a.items,b.items)])
    raise Unsupported('ite shapes')
class Return(Exception):
    def __init__(s,v): s.v=v
def call_method(cls,name,selfv,args):
    f=classes[cls][name]
    params=[a.arg for a in f.args.args]
    env=dict(zip(params,[selfv]+args))
    return exec_block(f.body,env,cls)
def exec_block(stmts,env,cls):
    """returns value if block returns on all paths, else None (falls through)"""
    for i,st in enumerate(stmts):
        if isinstance(st,ast.Expr):
            if isinstance(st.value,ast.Constant): continue   # docstring
            if isinstance(st.value,ast.Call) and ast.unparse(st.value.func)=='_warnings.warn': continue
            raise Unsupported('expr stmt '+ast.unparse(st))
        if isinstance(st,ast.Assert): continue               # recorded as precondition
        if isinstance(st,ast.Assign):
            if len(st.targets)!=1 or not isinstance(st.targets[0],ast.Name): raise Unsupported('assign target')
            env[st.targets[0].id]=ev(st.value,env,cls); continue
        if isinstance(st,ast.Return): return ev(st.value,env,cls)
        if isinstance(st,ast.If):
            c=cond(st.test,env,cls)
            rest=stmts[i+1:]
            if c is True:  return exec_block(st.body+rest,dict(env),cls)
            if c is False: return exec_block(st.orelse+rest,dict(env),cls)
            a=exec_block(st.body+rest,dict(env),cls); b=exec_block(st.orelse+rest,dict(env),cls)
            if a is None or b is None: raise Unsupported('if without return')
            return ite(c,a,b)
        raise Unsupported(type(st).__name__)
    return None
def cond(t,env,cls):
    # type(other) is Vec4
    if isinstance(t,ast.Compare) and len(t.ops)==1:
        l,r=t.left,t.comparators[0]
        if isinstance(t.ops[0],ast.Is) and isinstance(l,ast.Call) and ast.unparse(l.func)=='type':
            v=ev(l.args[0],env,cls); return isinstance(v,T) and v.cls==r.id
        a=ev(l,env,cls); b=ev(r,env,cls)
        if isinstance(t.ops[0],ast.Gt): return f'Rlt_dec {b.e} {a.e}'
        if isinstance(t.ops[0],ast.Eq): return f'Req_EM_T {a.e} {b.e}'
        raise Unsupported('compare')
    v=ev(t,env,cls)
    if isinstance(v,S): return f'negb_dec (Req_EM_T {v.e} 0)'   # truthiness of a number: d != 0
    raise Unsupported('cond')
def ev(n,env,cls):
    if isinstance(n,ast.Constant): return lit(n.value)
    if isinstance(n,ast.Name):
        if n.id in env: return env[n.id]
        raise Unsupported('name '+n.id)
    if isinstance(n,ast.BinOp): return binop(n.op,ev(n.left,env,cls),ev(n.right,env,cls))
    if isinstance(n,ast.UnaryOp) and isinstance(n.op,ast.USub):
        v=ev(n.operand,env,cls); return S(f'(- {v.e})')
    if isinstance(n,ast.Tuple):
        items=[]
        for e in n.elts:
            if isinstance(e,ast.Starred): items+=ev(e.value,env,cls).items
            else: items.append(ev(e,env,cls))
        return T('tuple',items)
    if isinstance(n,ast.Subscript):
        v=ev(n.value,env,cls)
        if not isinstance(v,T): raise Unsupported('subscript of scalar')
        sl=n.slice
        if isinstance(sl,ast.Slice):
            g=lambda x: None if x is None else ast.literal_eval(x)
            return T('tuple',v.items[slice(g(sl.lower),g(sl.upper),g(sl.step))])
        return v.items[ast.literal_eval(sl)]
    if isinstance(n,ast.Attribute):   # property access self.mag / self.heading / vec.x
        v=ev(n.value,env,cls)
        if isinstance(v,T) and n.attr in classes.get(v.cls,{}): return call_method(v.cls,n.attr,v,[])
        raise Unsupported('attr '+n.attr)
    if isinstance(n,ast.Call):
        fn=ast.unparse(n.func)
        if fn in SIZES or fn=='cls':
            target=cls if fn=='cls' else fn
            if len(n.args)==1 and (target.startswith('Mat')):
                a=ev(n.args[0],env,cls); assert len(a.items)==SIZES[target]; return T(target,a.items)
            items=[]
            for a in n.args:
                if isinstance(a,ast.Starred): items+=ev(a.value,env,cls).items
                else: items.append(ev(a,env,cls))
            if len(items)!=SIZES[target]: raise Unsupported('ctor arity')
            return T(target,items)
        if fn=='tuple' and isinstance(n.args[0],ast.GeneratorExp):
            g=n.args[0]; gen=g.generators[0]
            it=ast.unparse(gen.iter)
            if isinstance(gen.iter,ast.Call) and ast.unparse(gen.iter.func)=='zip':
                cols=[ev(a,env,cls).items for a in gen.iter.args]; names=[t.id for t in gen.target.elts]
                return T('tuple',[ev(g.elt,{**env,**dict(zip(names,vals))},cls) for vals in zip(*cols)])
            src=ev(gen.iter,env,cls).items
            return T('tuple',[ev(g.elt,{**env,gen.target.id:x},cls) for x in src])
        if fn=='sum' and isinstance(n.args[0],ast.Call) and ast.unparse(n.args[0].func)=='map' and ast.unparse(n.args[0].args[0])=='_mul':
            a=ev(n.args[0].args[1],env,cls).items; b=ev(n.args[0].args[2],env,cls).items
            acc=S('0')
            for x,y in zip(a,b): acc=S(f'({acc.e} + ({x.e} * {y.e}))')
            return acc
        if fn in ('_math.sqrt','_math.cos','_math.sin'):
            return S(f'({fn.split(".")[1]} {ev(n.args[0],env,cls).e})')
        if fn=='_math.atan2':
            return S(f'(atan2 {ev(n.args[0],env,cls).e} {ev(n.args[1],env,cls).e})')
        if fn in ('max','min'):
            a,b=[ev(x,env,cls) for x in n.args]; return S(f'(R{fn} {a.e} {b.e})')
        if fn in funcs:
            f=funcs[fn]; return exec_block(f.body,dict(zip([a.arg for a in f.args.args],[ev(x,env,cls) for x in n.args])),None)
        if isinstance(n.func,ast.Attribute):
            # Class.method(obj, ...) or obj.method(...)
            if isinstance(n.func.value,ast.Name) and n.func.value.id in classes:
                args=[ev(a,env,cls) for a in n.args]; return call_method(n.func.value.id,n.func.attr,args[0],args[1:])
            recv=ev(n.func.value,env,cls)
            if isinstance(recv,T) and n.func.attr in classes.get(recv.cls,{}):
                return call_method(recv.cls,n.func.attr,recv,[ev(a,env,cls) for a in n.args])
        raise Unsupported('call '+fn)
    if isinstance(n,ast.BinOp): pass
    raise Unsupported(type(n).__name__+' '+ast.unparse(n)[:40])
# matmul operator
_old=binop
def binop(op,a,b):
    if isinstance(op,ast.MatMult) and isinstance(a,T): return call_method(a.cls,'__matmul__',a,[b])
    return _old(op,a,b)
def symvec(cls,name): return T(cls,[S(f'{name}{i}') for i in range(SIZES[cls])])
targets=[('Vec3','cross',['Vec3']),('Vec3','dot',['Vec3']),('Vec2','normalize',[]),('Vec2','limit',['s']),('Vec3','limit',['s']),
 ('Vec2','rotate',['s']),('Vec2','from_magnitude',['s']),('Vec3','lerp',['Vec3','s']),('Vec4','clamp',['s','s']),
 ('Mat3','__add__',['Mat3']),('Mat3','__matmul__',['Mat3']),('Mat3','__matmul__',['Vec3']),('Mat4','__matmul__',['Vec4']),('Mat4','__matmul__',['Mat4']),
 ('Mat4','transpose',[]),('Mat4','translate',['Vec3']),('Mat4','__invert__',[]),('Mat4','__neg__',[]),('Vec2','distance',['Vec2']),('Vec2','__truediv__',['Vec2'])]
ok=0
for cls,m,sig in targets:
    selfv=symvec(cls,'a'); args=[symvec(t,'bcd'[i]) if t in SIZES else S('s%d'%i) for i,t in enumerate(sig)]
    try:
        r=call_method(cls,m,selfv,args); ok+=1
        items=r.items if isinstance(r,T) else [r]
        print(f'{cls}.{m}{sig}: {len(items)} entries; first = {items[0].e[:110]}')
    except Unsupported as e: print(f'{cls}.{m}{sig}: UNSUPPORTED {e}')
try: call_method('Mat4','orthogonal_projection',symvec('Mat4','a'),[S(x) for x in 'lrbtnf'])
except Exception as e: print('classmethod needs cls binding:',type(e).__name__,e)
print(ok,'/',len(targets))
