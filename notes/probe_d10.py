import sys; sys.path.insert(0,'/repo')
import desper, os, tempfile, shutil
from desper import *
class FH(Handle):
    def __init__(s,fn,*a,**k): s.fn=fn; s.a=a; s.k=k
    def load(s): return s.fn
def mk(tree, base):
    for name,v in tree.items():
        p=os.path.join(base,name)
        if isinstance(v,dict): os.makedirs(p,exist_ok=True); mk(v,p)
        else: open(p,'w').close()
def dump(m,prefix=''):
    out={}
    for k,v in m.maps.items(): out[prefix+k+'/']='map(parent=%s,key=%s)'%(v.parent is m, v.key); out.update(dump(v,prefix+k+'/'))
    for i,layer in enumerate(m.handles.maps):
        for k,v in layer.items(): out[prefix+k+('@%d'%i)]=os.path.relpath(v.fn, root)
    return out
def run(tree, rules, **kw):
    global root
    root=tempfile.mkdtemp(); mk(tree,root)
    p=DirectoryResourcePopulator(root, **kw)
    for r in rules: p.add_rule(r[0], FH, *r[1:2], file_exts=r[2] if len(r)>2 else ())
    m=ResourceMap()
    try: p(m); print(dump(m))
    except Exception as ex: print('EXC',type(ex).__name__,ex)
    return p,m
run({'d':{'a.png':0,'sub':{'b.txt':0,'.hidden':0,'e':{}},'.hid':{'x':0}}}, [('d',)])
run({'d':{'a.png':0,'a.txt':0,'sub':{'b.txt':0}}}, [('d',)], trim_extensions=True)
run({'d':{'a.png':0,'a.txt':0}}, [('d',)], trim_extensions=True, nest_on_conflict=False)
run({'d':{'x.png':0,'x':{'a.png':0}}}, [('d',(), ['.png'])], trim_extensions=True)
run({'d':{'x.png':0,'x':{'a.png':0}}}, [('d',)], trim_extensions=True)
p,m=run({'d':{'a':0}}, [('d',)]); p(m); print('twice', dump(m))
run({'d':{'a':0,'s':{'b':0}}}, [('d',),('d/s',)])
run({'d':{'a':0}}, [('.',)])
run({'d':{'a':0}}, [('d/',)])
run({'d':{'a':0}}, [('nonexist',)])
run({'d.x':{'a.y':0,'b':0}}, [('d.x',(),['.y'])], trim_extensions=True)
