import sys; sys.path.insert(0,'/repo')
import desper, gc
from desper import World, event_handler
print(desper.__file__)
class A: pass
class B(A): pass
class C(A): pass
class D(B,C): pass
w=World()
# C01 replacement bug
e=w.create_entity(A())
w.add_component(e,A())
print('C01 get(A) after replace:', w.get(A), 'get_component', w.get_component(e,A))
# auto id collision
w=World()
w.create_entity(A(), entity_id=1)
e2=w.create_entity(B())
print('C01 auto id collide:', e2, w.get_components(1))
# C06 diamond
w=World()
e=w.create_entity(D())
print('C06 get(A) diamond:', w.get(A))
# C02 clear
@event_handler('on_add','on_remove','probe')
class H:
    def __init__(s): s.log=[]
    def on_add(s,e,w): s.log.append(('add',e))
    def on_remove(s,e,w): s.log.append(('rem',e))
    def probe(s): s.log.append('probe')
w=World(); h=H(); e=w.create_entity(h)
w.clear(); print('C02 clear log:', h.log, 'is_handler', w.is_handler(h), 'world self handler', w.is_handler(w))
w.dispatch_enabled=False
h2=H(); w.create_entity(h2); w.dispatch_enabled=True
print('C02 postponed on reused world:', h2.log)
w=World(); h=H(); e=w.create_entity(h); w.delete_entity(e, immediate=True); w.dispatch('probe')
print('C02 immediate delete:', h.log, w.is_handler(h))
@event_handler('probe')
class P:
    def probe(s): pass
w=World(); p=P(); e=w.create_entity(p); w.dispatch_enabled=False; w.remove_component(e,P)
try:
    w.dispatch_enabled=True; print('C02 no-on_remove handler removed while disabled: ok')
except Exception as ex: print('C02 no-on_remove handler removed while disabled:', type(ex), ex)
# create_entity on existing id with same type
w=World(); h=H(); h2=H(); w.create_entity(h, entity_id='x'); w.create_entity(h2, entity_id='x')
print('C02 create over existing:', h.log, h2.log, w.is_handler(h))
# two same-type comps in one create
w=World(); h=H(); h2=H(); w.create_entity(h, h2)
print('C02 create two same type:', h.log, h2.log, w.get_components(1), w.is_handler(h))
