import sys; sys.path.insert(0,'/repo')
import desper, gc, os, tempfile, warnings
from desper import *
from desper.math import *
class Hd(Handle):
    def __init__(s,v): s.v=v; s.n=0
    def load(s): s.n+=1; return s.v
# C17 mangled names
for name in ('__secret','class','_handle_names','get','','a b','__dict__','__class__','__slots__', '__init__'):
    m=ResourceMap(); m[name]=Hd(5)
    try:
        s=m.get_static_map(); print('C17 name',repr(name),'->', s[name], s.get(name) is m.get(name))
    except Exception as ex: print('C17 name',repr(name),'EXC',type(ex).__name__,ex)
# mix identifier and non-identifier, check dict
m=ResourceMap(); m['ok']=Hd(1); m['not ok']=Hd(2); m['sub/x y']=Hd(3); s=m.get_static_map()
print(s.ok, s['not ok'], s.sub['x y'])
try: s.zzz = 1
except Exception as ex: print(type(ex).__name__)
try: s.__dict__['zzz']=1; print('C17 __dict__ backdoor mutates:', s.zzz)
except Exception as ex: print('dict backdoor', type(ex).__name__, ex)
# C11 layered shadow + map assignment
m=ResourceMap(); old=Hd(1); m['k']=old; m.handles.maps.insert(0,{}); 
m['k']=ResourceMap(); print('C11 layered: latest is map, get gives', type(m.get('k')).__name__)
m=ResourceMap(); old=Hd(1); m['k']=old; m.handles.maps.insert(0,{}); m['k/x']=Hd(2)
print('C11 layered intermediate: get(k)', type(m.get('k')).__name__, 'get(k/x)', m.get('k/x'))
# C18
v=Vec3(2,2,2); print('C18 limit', v.limit(3), abs(v))
print(type(Vec2(1,2)+Vec2(1,1)).__name__, Vec2(1,2).yx, Vec3(1,2,3).zyx, Vec4(1,2,3,4).wzyx, Vec2(1,2).xyxy, Vec3(1,2,3).xy)
try: Vec2(1,2).xz
except AttributeError as e: print('swizzle bad', e)
try: print(Vec2(1,2).xyxyx)
except AttributeError as e: print('swizzle 5', e)
try: print('len1 swizzle', Vec3(1,2,3).z, Vec4(1,2,3,4).w)
except AttributeError as e: print(e)
with warnings.catch_warnings(record=True) as wr:
    warnings.simplefilter('always'); z=~Mat4((0,)*16); print('singular', z==Mat4((0,)*16), len(wr))
print(Mat4((0,)*16)[:4], Mat4([0]*16)[:4])
print(Mat4().translate(Vec3(1,2,3)), Mat4.from_translation(Vec3(1,2,3)))
A=Mat4(tuple(range(1,17))); B=Mat4(tuple(range(2,34,2))); v4=Vec4(1,2,3,4)
print((A@B)@v4 == B@(A@v4))
print(Mat3()@Vec3(1,2,3), (Mat3()@(1,2,3,4,5,6,7,8,9))[:3])
