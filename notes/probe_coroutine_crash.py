import sys, random, weakref, gc
sys.path.insert(0, sys.argv[1])
import desper
from desper import CoroutineProcessor, CoroutineState
def run(seed):
    rnd=random.Random(seed)
    n=rnd.randint(1,4)
    # script: list of steps; step=(actions, yieldval) ; actions: ('kill',j)/('start',j)/('state',j)
    def mkscript():
        st=[]
        for _ in range(rnd.randint(1,6)):
            acts=[]
            for _ in range(rnd.choice([0,0,0,1,2])):
                acts.append((rnd.choice(['kill','start','state']), rnd.randrange(n)))
            st.append((acts, rnd.choice([None,None,0,1,2,0.5,3])))
        return st
    scripts=[mkscript() for _ in range(n)]
    retval=[rnd.choice([None,7,'x']) for _ in range(n)]
    cp=CoroutineProcessor(); log=[]
    # reference state
    status=['idle']*n   # idle/active/paused
    remaining=[0]*n; pc=[0]*n; finished=[False]*n
    errors=[]
    def ref_state(j): return {'idle':0,'paused':1,'active':2}[status[j]]
    def do(act,j,inbody):
        # perform on impl and ref, compare outcome
        if act=='state':
            got=int(cp.state(gens[j])); exp=ref_state(j)
            if got!=exp: errors.append(('state',j,got,exp))
        elif act=='kill':
            try: cp.kill(gens[j]); got='ok'
            except ValueError: got='VE'
            exp='ok' if status[j]!='idle' else 'VE'
            if got!=exp: errors.append(('kill',j,got,exp))
            if exp=='ok': status[j]='idle'
        elif act=='start':
            try: promises[j]=cp.start(gens[j]); got='ok'
            except ValueError: got='VE'
            exp='ok' if status[j]=='idle' else 'VE'
            if got!=exp: errors.append(('start',j,got,exp))
            if exp=='ok': status[j]='active'; started_in_frame.add(j)
    def mk(i):
        def g():
            for k,(acts,y) in enumerate(scripts[i]):
                log.append((i,k))
                for (a,j) in acts: do(a,j,True)
                yield y
            log.append((i,'end'))
            return retval[i]
        return g()
    gens=[mk(i) for i in range(n)]; promises=[None]*n
    started_in_frame=set()
    ops=[]
    for f in range(16):
        # top-level actions
        for _ in range(rnd.choice([0,1,1,2])):
            a=rnd.choice(['start','start','kill','state']); j=rnd.randrange(n); ops.append((a,j)); do(a,j,False)
        dt=rnd.choice([0,0.5,1,1,2,3]); ops.append(('process',dt))
        log.clear(); started_in_frame.clear()
        should_run_start={j for j in range(n) if status[j]=='active'}
        wake={j for j in range(n) if status[j]=='paused' and remaining[j]-dt<=0}
        for j in range(n):
            if status[j]=='paused': remaining[j]-=dt
        for j in wake: status[j]='active'
        # we cannot predict order fully; simulate using impl log order: process log entries sequentially in reference AFTER the call? in-body actions interleave.
        # Approach: reference executed inside bodies (do() is called in-body on both); after process, validate the set/sequence of bodies run.
        try:
            # ref bookkeeping of pc etc happens post-hoc using log
            before_status=list(status)
            cp.process(dt)
        except Exception as ex:
            return ('process EXC',type(ex).__name__,str(ex)[:80],ops,scripts)
        ran=[e[0] for e in log]
        if len(set(ran))!=len(ran): return ('ran twice',ran,ops,scripts)
        # update ref from log
        for (i,k) in log:
            if k=='end': finished[i]=True; 
        # For each body run: it must have been eligible: active at the time it ran. We check post-hoc weaker: i in should_run_start|wake|started_in_frame
        for i in ran:
            if i not in should_run_start and i not in wake and i not in started_in_frame: return ('ran ineligible',i,ran,ops,scripts)
        # every coroutine active at start or woken, and never killed during the frame (status unchanged as active through), must have run
        # track kills during frame: approximate using status now
        for (i,k) in log:
            if k=='end':
                if status[i]=='active': status[i]='idle'
                if promises[i] is not None and status[i]=='idle' and promises[i].value!=retval[i]: errors.append(('promise',i,promises[i].value,retval[i]))
            else:
                y=scripts[i][k][1]
                if status[i]=='active' and y is not None and y>0 and not (i in started_in_frame and False): 
                    status[i]='paused'; remaining[i]=y
        for i in should_run_start|wake:
            if i not in ran and status[i]=='active' and i not in started_in_frame: return ('did not run',i,ran,ops,scripts)
        if errors: return ('errors',errors[:3],ops,scripts)
        for j in range(n):
            got=int(cp.state(gens[j])); 
            if got!=ref_state(j): return ('state after frame',j,got,ref_state(j),ops,scripts,log[:])
    return None
bad=0
for seed in range(int(sys.argv[2])):
    try: r=run(seed)
    except Exception as ex: r=('harness EXC',type(ex).__name__,str(ex)[:200])
    if r and r[0] in ('process EXC','ran twice','harness EXC'):
        bad+=1
        if bad<=4: print('seed',seed,str(r)[:900])
print('bad',bad)
