import sys; sys.path.insert(0,'/repo')
import desper, gc, itertools
from desper import *
# C04 exception during release
@event_handler('ev')
class H:
    def __init__(s, name, log, act=None): s.name=name; s.log=log; s.act=act
    def ev(s, i):
        s.log.append((s.name,i))
        if s.act: s.act(s,i)
class Boom(Exception): pass
log=[]
d=EventDispatcher()
def act(s,i):
    if i==1 and not getattr(s,'done',False):
        s.done=True; raise Boom()
h=H('h',log,act); d.add_handler(h)
d.dispatch_enabled=False
for i in range(3): d.dispatch('ev',i)
try: d.dispatch_enabled=True
except Boom: print('boom; enabled=',d.dispatch_enabled,'queue',d._event_queue)
d.dispatch_enabled=True
print('C04 log after exception + re-enable:',log)
# nested disable -> infinite loop? guard with counter
log=[]
d=EventDispatcher()
cnt=[0]
def act2(s,i):
    cnt[0]+=1
    if cnt[0]>50: raise Boom()
    if i==0: d.dispatch_enabled=False
h=H('h',log,act2); d.add_handler(h)
class LQ(list):
    def append(s,x):
        if len(s)>1000: raise Boom()
        list.append(s,x)
d._event_queue=LQ()
d.dispatch_enabled=False
for i in range(2): d.dispatch('ev',i)
try:
    d.dispatch_enabled=True; print('C04 nested disable terminated; queue',d._event_queue, log)
except Boom: print('C04 nested disable: runaway loop, log len',len(log), 'queue len', len(d._event_queue))
# C10: handler dies mid-dispatch
@event_handler('on_update')
class K:
    def __init__(s,name,w,log): s.name=name; s.w=w; s.log=log; s.victim=None
    def on_update(s,dt):
        s.log.append(s.name if s is not None else None)
        if s.victim is not None:
            s.w.remove_component(s.victim, K); s.victim=None
for trial in range(2):
    w=World(); log=[]
    a=K('a',w,log); b=K('b',w,log)
    ea=w.create_entity(a); eb=w.create_entity(b)
    if trial==0: a.victim=eb; del b
    else: b.victim=ea; del a
    gc.collect()
    try:
        w.dispatch('on_update',1.0); print('C10 trial',trial,'ok',log)
    except Exception as ex: print('C10 trial',trial,'EXC',type(ex).__name__,ex,log)
# C03: events inherit
@event_handler('e1', e2='m2')
class Base:
    def e1(s): pass
    def m2(s): pass
before=dict(Base.__events__)
@event_handler('e3', e1='m2')
class Sub(Base):
    def e3(s): pass
print('C03 base unchanged:', Base.__events__==before, Sub.__events__)
@event_handler('x')
class B1:
    def x(s): pass
@event_handler('y')
class B2:
    def y(s): pass
class M(B1,B2): pass
print('C03 multi-inherit undecorated:', M.__events__)
@event_handler('z')
class M2(B1,B2):
    def z(s): pass
print('C03 multi-inherit decorated:', M2.__events__)
# C20
@event_handler('on_rotation_change','on_position_change','on_scale_change')
class L:
    def __init__(s): s.log=[]
    def on_rotation_change(s,v): s.log.append(('rot',v))
    def on_position_change(s,v): s.log.append(('pos',v))
    def on_scale_change(s,v): s.log.append(('scale',v))
t=Transform2D(); l=L(); t.add_handler(l); t.rotation=370
print('C20:', l.log, t.rotation)
t=Transform2D(); t2=Transform2D(); print('C20 default shared?', t.position is t2.position, t._position is t2._position)
t.rotation=-10; print(t.rotation); t.rotation=-0.0; print(t.rotation); t.rotation=360.0; print(t.rotation); t.rotation=-1e-20; print('tiny neg',t.rotation)
