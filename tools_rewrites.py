#!/venv/bin/python
"""Run checks against the behaviour-preserving rewrites kept under /verif/rewrites/<name>/.
Expected: exit 0 (no alarm).  usage: tools_rewrites.py [name ...]; env REWRITES_OUT=file"""
import json, os, subprocess, sys, shutil
ROOT = os.path.dirname(os.path.abspath(__file__))
def sh(cmd, **kw):
    return subprocess.run(cmd, shell=True, capture_output=True, text=True, **kw)
base = os.path.join(ROOT, 'rewrites')
names = sys.argv[1:] or sorted(d for d in os.listdir(base) if os.path.isdir(os.path.join(base, d)))
resf = os.environ.get('REWRITES_OUT') or os.path.join(base, 'RESULTS.json')
results = json.load(open(resf)) if os.path.exists(resf) else {}
for name in names:
    d = os.path.join(base, name)
    meta = json.load(open(os.path.join(d, 'meta.json')))
    wt = '/tmp/wt-rw-%s-%d' % (name, os.getpid())
    sh('git -C /repo worktree add --detach %s' % wt)
    try:
        r = sh('git -C %s apply %s' % (wt, os.path.join(d, 'patch.diff')))
        if r.returncode:
            results[name] = dict(error='patch does not apply: ' + r.stderr[-300:]); continue
        tests = sh('cd %s && PYTHONPATH=%s timeout 600 /venv/bin/python -m pytest -q -p no:cacheprovider 2>&1 | tail -1' % (wt, wt))
        same = None
        ex = os.path.join(d, 'exercise.py')
        if os.path.exists(ex):
            a = sh('PYTHONPATH=%s PYTHONHASHSEED=0 timeout 120 /venv/bin/python %s' % (wt, ex))
            b = sh('PYTHONPATH=/repo PYTHONHASHSEED=0 timeout 120 /venv/bin/python %s' % ex)
            same = (a.stdout == b.stdout and a.returncode == b.returncode)
        out = {}
        for pid in meta.get('checks', [meta['property']]):
            c = sh('cd %s && DESPER_REPO=%s timeout 1800 ./check %s quick' % (ROOT, wt, pid))
            out[pid] = dict(exit=c.returncode,
                            lines=[l for l in c.stdout.split('\n') if l.startswith('VIOLATION')][:3],
                            err=c.stderr[-300:] if c.returncode == 2 else '')
        results[name] = dict(property=meta['property'], tests=tests.stdout.strip(),
                             transcript_identical=same, checks=out)
        print(name, json.dumps(results[name])[:300])
    finally:
        sh('git -C /repo worktree remove --force %s' % wt)
        shutil.rmtree(wt, ignore_errors=True)
json.dump(results, open(resf, 'w'), indent=1, sort_keys=True)
